------------------------------ MODULE Wellformed ------------------------------
(***************************************************************************)
(* C07 / C08 / C09 — predicates over the driver's observation record of one *)
(* run of the real transform (what the next pass would receive, what the    *)
(* printed text re-parses to, how the run terminated, what a second run and *)
(* a second pass produce, and the frame fingerprints).                      *)
(***************************************************************************)
EXTENDS Naturals, Sequences

(* C07: an error was reported, or the output is plain ECMAScript/TypeScript *)
Diagnosed(d) == d.ndiag > 0
PlainOutput(d) == d.census.jsx = 0 /\ d.reparse.t = "ok"
WellFormedOrDiagnosed(d) == Diagnosed(d) \/ PlainOutput(d)
WellFormedWhy(d) ==
  IF d.term.k \in {"parse_error", "skipped"} THEN ""         \* not a module the SWC parser accepts / not run
  ELSE IF d.term.k # "return" THEN "transform:" \o d.term.k
  ELSE IF Diagnosed(d) THEN ""
  ELSE IF d.census.jsx # 0 THEN "jsx-left-in-output:" \o d.census.kinds[1]
  ELSE IF d.reparse.t # "ok" THEN "output-is-not-a-program"
  ELSE ""

(* C08: the transform returns, and the result is a function of (source, options) alone *)
Total(d) == d.term.k \in {"return", "parse_error", "config_error", "skipped"}     \* skipped: not run (timeout budget), no verdict
TotalWhy(d) ==
  IF ~Total(d) THEN "transform:" \o d.term.k \o (IF "phase" \in DOMAIN d.term THEN ":" \o d.term.phase ELSE "")
  ELSE IF d.term.k # "return" THEN ""
  \* the tree handed on makes the passes that always follow (hygiene, fixer, code generation) panic: a crash all the same,
  \* whether or not a diagnostic was reported first
  ELSE IF "unprintable" \in DOMAIN d /\ d.unprintable THEN "output-tree-crashes-the-next-pass"
  ELSE IF ~d.run2_same THEN "second-run-differs"
  ELSE IF ~d.fresh_same THEN "fresh-process-run-differs"
  ELSE ""

(* C09: the frame — every JSX-free statement/expression of the input appears unchanged, in order *)
RECURSIVE Embeds(_, _, _, _)
Embeds(xs, ys, i, j) ==            \* xs[i..] is a subsequence of ys[j..] (greedy)
  IF i > Len(xs) THEN TRUE
  ELSE IF j > Len(ys) THEN FALSE
  ELSE IF xs[i] = ys[j] THEN Embeds(xs, ys, i + 1, j + 1) ELSE Embeds(xs, ys, i, j + 1)
IsOrderedEmbedding(xs, ys) == Embeds(xs, ys, 1, 1)

FrameWhy(d) ==
  IF d.term.k # "return" THEN ""
  ELSE IF ~IsOrderedEmbedding(d.frame_in, d.frame_out) THEN "input-code-changed-dropped-or-reordered"
  ELSE IF d.jsx_in = 0 /\ ~d.uses_define_component /\ ~d.same_as_novisitor THEN "jsx-free-module-changed"
  ELSE IF d.pass2 = "changed" THEN "not-idempotent"
  ELSE IF d.pass2 = "panic" THEN "second-pass-panics"
  ELSE ""
=============================================================================
