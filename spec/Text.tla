--------------------------------- MODULE Text ---------------------------------
(***************************************************************************)
(* The JSX whitespace rule (React/Babel cleanJSXElementLiteralChild), over *)
(* sequences of code points: split on CRLF | LF | CR; tabs become spaces;  *)
(* strip spaces adjacent to a line break; drop empty lines; join the rest  *)
(* with one space; every other character is preserved.                    *)
(***************************************************************************)
EXTENDS Naturals, Sequences

RECURSIVE SplitLines(_, _, _)
SplitLines(s, i, cur) ==
  IF i > Len(s) THEN <<cur>>
  ELSE IF s[i] = 13 /\ i < Len(s) /\ s[i + 1] = 10 THEN <<cur>> \o SplitLines(s, i + 2, <<>>)
  ELSE IF s[i] \in {10, 13} THEN <<cur>> \o SplitLines(s, i + 1, <<>>)
  ELSE SplitLines(s, i + 1, Append(cur, IF s[i] = 9 THEN 32 ELSE s[i]))

RECURSIVE TrimL(_), TrimR(_)
TrimL(l) == IF l # <<>> /\ Head(l) = 32 THEN TrimL(Tail(l)) ELSE l
TrimR(l) == IF l # <<>> /\ l[Len(l)] = 32 THEN TrimR(SubSeq(l, 1, Len(l) - 1)) ELSE l

RECURSIVE JoinSp(_, _)
JoinSp(ls, i) ==
  IF i > Len(ls) THEN <<>>
  ELSE ls[i] \o (IF i < Len(ls) THEN <<32>> ELSE <<>>) \o JoinSp(ls, i + 1)

CleanText(s) ==
  LET ls    == SplitLines(s, 1, <<>>)
      n     == Len(ls)
      tr(i) == LET a == IF i # 1 THEN TrimL(ls[i]) ELSE ls[i]
               IN  IF i # n THEN TrimR(a) ELSE a
      kept  == SelectSeq([i \in 1..n |-> tr(i)], LAMBDA l : l # <<>>)
  IN  JoinSp(kept, 1)

(* source symbols of JSX text: what is written vs. the code point it denotes. *)
(* The renderer prints the spelling, the rule above works on code points.     *)
SymCp(sym) ==
  CASE sym = "sp" -> 32 [] sym = "tab" -> 9 [] sym = "lf" -> 10 [] sym = "cr" -> 13
    [] sym = "nbsp" -> 160 [] sym = "ideo" -> 12288 [] sym = "ls" -> 8232 [] sym = "emsp" -> 8195
    [] sym = "bom" -> 65279
    [] sym = "a" -> 97 [] sym = "b" -> 98 [] sym = "c" -> 99
    [] sym = "amp" -> 38          \* written &amp;
    [] sym = "nbspE" -> 160       \* written &nbsp;
    [] sym = "spE" -> 32          \* written &#32;
    [] sym = "lfE" -> 10          \* written &#10; - a line break all the same
    [] sym = "tabE" -> 9          \* written &#9;
    [] sym = "lt" -> 60           \* written &lt;
    [] sym = "bs" -> 92           \* a backslash: JSX strings and text have no escape sequences
    [] sym = "apos" -> 39         \* written &apos;
    [] OTHER -> 63

(* multi-character symbols (whole words) *)
SymWord(sym) ==
  CASE sym = "crlf" -> <<13, 10>>
    [] sym = "bsn" -> <<92, 110>>                 \* the two characters \ and n (not a line break)
    [] sym = "w_checkbox" -> <<99, 104, 101, 99, 107, 98, 111, 120>>
    [] sym = "w_radio" -> <<114, 97, 100, 105, 111>>
    [] sym = "w_text" -> <<116, 101, 120, 116>>
    [] sym = "w_number" -> <<110, 117, 109, 98, 101, 114>>
    [] OTHER -> <<SymCp(sym)>>

RECURSIVE SymsCp(_)
SymsCp(syms) == IF syms = <<>> THEN <<>> ELSE SymWord(Head(syms)) \o SymsCp(Tail(syms))
=============================================================================
