-------------------------------- MODULE Visitor --------------------------------
(***************************************************************************)
(* The implementation-shaped state machine of the traversal                 *)
(* (visitor/src/lib.rs): one action per critical section of the visitor.    *)
(*                                                                          *)
(* State = the mutable fields of VueJsxTransformVisitor that the (S)        *)
(* properties are about - the pending `let _slotN` / `const _x` declaration  *)
(* lists (per enclosing statement list / arrow: a stack of frames), the     *)
(* slot counter, the assignment target in effect, the helper/import flags - *)
(* plus what has been placed so far (declarations with their scope path)    *)
(* and every use of a generated name with the scope path it occurs in.      *)
(*                                                                          *)
(* The input (the "history") is an abstract module chosen in Init: a tree   *)
(* of items - JSX sites of four kinds in every syntactic context the        *)
(* property quantifies over, assignments, nested functions / arrows /       *)
(* blocks / class fields / default parameters, user declarations with       *)
(* colliding names.  Linearize gives the post-order traversal the visitor   *)
(* performs (visit_mut_children_with first, then the node's own code), so   *)
(* TLC's nondeterminism is only in the choice of the module.                *)
(*                                                                          *)
(* Deviations (spec/Deviations.tla): with a name in Devs the machine        *)
(* behaves like the code did before the corresponding repair; TLC then      *)
(* produces the counterexample that is replayed on the real code.           *)
(***************************************************************************)
EXTENDS Naturals, Sequences, FiniteSets, TLC, SequencesExt

CONSTANTS Devs,           \* set of deviation names in effect (normally {})
          EosChoices      \* values of enableObjectSlots explored (subset of BOOLEAN)

(* ---------------------------------------------------------------- items *)
Site(kind, id)          == [k |-> "site", kind |-> kind, id |-> id]
   \* kind: "plain"  <div id="a"/>                    no temporary, no helper
   \*       "call"   <C>{f()}</C>                     needs `_slotN` and the slot helper
   \*       "ident"  <A>{a}</A>   (a bound)           consults the assignment target, needs the slot helper
   \*       "frag"   <>{x}</>                         needs the Fragment import
Assign(x, rhs)          == [k |-> "assign", x |-> x, rhs |-> rhs]      \* rhs: a Site, or [k |-> "plain"]
PlainItem               == [k |-> "plain"]
FnItem(body)            == [k |-> "fn", body |-> body]
FnParam(site, body)     == [k |-> "fnparam", site |-> site, body |-> body]
ArrowExpr(item)         == [k |-> "arrow", item |-> item]              \* () => item   (item: site / assign / arrow)
ArrowBlock(body)        == [k |-> "arrowblock", body |-> body]
ArrowP(site, item)      == [k |-> "arrowp", site |-> site, item |-> item]          \* (p = site) => item
ArrowBlockP(site, body) == [k |-> "arrowblockp", site |-> site, body |-> body]     \* (p = site) => { body }
Block(body)             == [k |-> "block", body |-> body]
ClassField(site)        == [k |-> "classfield", site |-> site]
UserDecl(name)          == [k |-> "userdecl", name |-> name]

(* ------------------------------------------------------- linearisation *)
(* scope path: sequence of <<kind, index>> steps from the module down.    *)
Op(k, path, f) == [k |-> k, path |-> path] @@ f

RECURSIVE Lin(_, _), LinSeq(_, _, _)
LinSeq(items, path, i) ==
  IF i > Len(items) THEN <<>> ELSE Lin(items[i], Append(path, i)) \o LinSeq(items, path, i + 1)

SiteOps(s, path) == <<Op("site", path, [kind |-> s.kind, id |-> s.id])>>

Lin(it, path) ==      \* `path` ends with the item's own index in its list
  LET here == SubSeq(path, 1, Len(path) - 1) IN     \* scope path of the list containing the item
  CASE it.k = "site"       -> SiteOps(it, here)
    [] it.k = "plain"      -> <<>>
    [] it.k = "userdecl"   -> <<>>
    [] it.k = "assign"     -> <<Op("assign_enter", here, [x |-> it.x])>>
                              \o (IF it.rhs.k = "site" THEN SiteOps(it.rhs, here) ELSE <<>>)
                              \o <<Op("assign_exit", here, [x |-> it.x])>>
    [] it.k = "fn"         -> <<Op("enter_stmts", path, <<>>)>> \o LinSeq(it.body, path, 1) \o <<Op("exit_stmts", path, <<>>)>>
    [] it.k = "fnparam"    -> SiteOps(it.site, Append(here, 1000 + path[Len(path)]))
                              \o <<Op("enter_stmts", path, <<>>)>> \o LinSeq(it.body, path, 1) \o <<Op("exit_stmts", path, <<>>)>>
    [] it.k \in {"arrow", "arrowp"} ->
                              <<Op("enter_arrow", path, [block |-> FALSE])>>
                              \o (IF it.k = "arrowp" THEN SiteOps(it.site, Append(here, 1000 + path[Len(path)])) ELSE <<>>)
                              \o <<Op("params_done", path, [block |-> FALSE])>>
                              \o Lin(it.item, Append(path, 1))
                              \o <<Op("exit_arrow", path, [block |-> FALSE])>>
    [] it.k \in {"arrowblock", "arrowblockp"} ->
                              <<Op("enter_arrow", path, [block |-> TRUE])>>
                              \o (IF it.k = "arrowblockp" THEN SiteOps(it.site, Append(here, 1000 + path[Len(path)])) ELSE <<>>)
                              \o <<Op("params_done", path, [block |-> TRUE])>>
                              \o <<Op("enter_stmts", Append(path, 0), <<>>)>> \o LinSeq(it.body, Append(path, 0), 1)
                              \o <<Op("exit_stmts", Append(path, 0), <<>>)>>
                              \o <<Op("exit_arrow", path, [block |-> TRUE])>>
    [] it.k = "block"      -> <<Op("enter_stmts", path, <<>>)>> \o LinSeq(it.body, path, 1) \o <<Op("exit_stmts", path, <<>>)>>
    [] it.k = "classfield" -> SiteOps(it.site, Append(here, 2000 + path[Len(path)]))

Linearize(mod) == LinSeq(mod, <<>>, 1) \o <<Op("drain_module", <<>>, <<>>)>>

(* ---------------------------------------------------------------- state *)
VARIABLES mod,          \* the abstract module (the history)
          eos,          \* the enableObjectSlots option of this run (part of the input)
          ops, pc,      \* its traversal, position
          frames,       \* stack of pending-declaration frames: [vars |-> Seq(name), consts |-> Seq(name), counter |-> Nat]
                        \*   top = the lists in `self`, below = the `outer_*` locals of the active visit_mut_stmts/arrow calls
          left,         \* assignment target in effect ("" = none)
          leftStack,    \* saved outer targets of the active assignments
          helper,       \* slot helper requested
          imports,      \* vue imports requested
          decls,        \* placed declarations: [name, scope, kind]
          uses,         \* uses of generated names: [name, scope, deferred]
          trace         \* the hook events this run produces (history variable; hidden from the state space by VIEW)
allvars == <<mod, eos, ops, pc, frames, left, leftStack, helper, imports, decls, uses, trace>>
view == <<mod, eos, pc, frames, left, leftStack, helper, imports, decls, uses>>

Frame0 == [vars |-> <<>>, consts |-> <<>>, counter |-> 1]
Top == frames[Len(frames)]
SetTop(f) == [frames EXCEPT ![Len(frames)] = f]
Cur == ops[pc]
Done == pc > Len(ops)
Advance == pc' = pc + 1

SlotName(n) == IF n = 1 THEN "_slot" ELSE "_slot" \o ToString(n)
Ev(name, f) == [ev |-> name] @@ f
Log(e) == trace' = Append(trace, e)

Scoped == "Dev_DrainIntoNextScope" \notin Devs       \* repaired behaviour: pending lists are per scope
FreshLeft == "Dev_StaleAssignmentLeft" \notin Devs   \* repaired behaviour: target scoped to the right-hand side
ParamsOuter == "Dev_ArrowParamTempInBody" \notin Devs \* repaired behaviour: what an arrow's parameters generate belongs to the enclosing scope

(* ------------------------------------------------------------- actions *)
(* visit_mut_stmts, before the children: the enclosing scope's lists are set aside *)
EnterStmts ==
  /\ ~Done /\ Cur.k = "enter_stmts"
  /\ frames' = IF Scoped THEN Append(frames, Frame0) ELSE frames
  /\ Log(Ev("enter_stmts", <<>>))
  /\ Advance /\ UNCHANGED <<mod, eos, ops, left, leftStack, helper, imports, decls, uses>>

(* visit_mut_stmts, after the children: everything pending in this frame is declared at index 0 *)
ExitStmts ==
  /\ ~Done /\ Cur.k = "exit_stmts"
  /\ decls' = decls \cup {[name |-> Top.vars[i], scope |-> Cur.path, kind |-> "let"] : i \in 1..Len(Top.vars)}
                    \cup {[name |-> Top.consts[i], scope |-> Cur.path, kind |-> "const"] : i \in 1..Len(Top.consts)}
  /\ Log(Ev("exit_stmts", [consts |-> Top.consts, vars |-> Top.vars,
                           outer_vars |-> IF Scoped THEN frames[Len(frames) - 1].vars ELSE <<>>,
                           outer_consts |-> IF Scoped THEN frames[Len(frames) - 1].consts ELSE <<>>]))
  /\ frames' = IF Scoped THEN SubSeq(frames, 1, Len(frames) - 1)
               ELSE SetTop([Top EXCEPT !.vars = <<>>, !.consts = <<>>,
                                       !.counter = IF Top.vars # <<>> THEN 1 ELSE @])
  /\ Advance /\ UNCHANGED <<mod, eos, ops, left, leftStack, helper, imports, uses>>

EnterArrow ==
  /\ ~Done /\ Cur.k = "enter_arrow"
  /\ frames' = IF Scoped THEN Append(frames, [Frame0 EXCEPT !.counter = IF Cur.block \/ ParamsOuter THEN Top.counter ELSE 1]) ELSE frames
  /\ Log(Ev("enter_arrow", [block |-> Cur.block]))
  /\ Advance /\ UNCHANGED <<mod, eos, ops, left, leftStack, helper, imports, decls, uses>>

(* visit_mut_arrow_expr, between the parameters and the body: the temporaries of parameter defaults are handed to  *)
(* the enclosing scope (the parameter scope cannot see the body's declarations); an expression body then numbers  *)
(* its own temporaries from 1.  Silent (no hook event).  Before the repair nothing happened here.                 *)
ParamsDone ==
  /\ ~Done /\ Cur.k = "params_done"
  /\ frames' = IF Scoped /\ ParamsOuter
               THEN LET below == frames[Len(frames) - 1]
                        rest  == SubSeq(frames, 1, Len(frames) - 2)
                    IN rest \o <<[below EXCEPT !.vars = @ \o Top.vars, !.consts = @ \o Top.consts, !.counter = Top.counter],
                                 [Frame0 EXCEPT !.counter = IF Cur.block THEN Top.counter ELSE 1]>>
               ELSE frames
  /\ Advance /\ UNCHANGED <<mod, eos, ops, left, leftStack, helper, imports, decls, uses, trace>>

(* visit_mut_arrow_expr, after the children: an expression body becomes { decls; return e };   *)
(* what is still pending at a block-bodied arrow goes back to the enclosing scope               *)
ExitArrow ==
  /\ ~Done /\ Cur.k = "exit_arrow"
  /\ LET converts == ~Cur.block /\ (Top.vars # <<>> \/ Top.consts # <<>>) IN
     /\ decls' = IF converts
                 THEN decls \cup {[name |-> Top.vars[i], scope |-> Cur.path, kind |-> "let"] : i \in 1..Len(Top.vars)}
                            \cup {[name |-> Top.consts[i], scope |-> Cur.path, kind |-> "const"] : i \in 1..Len(Top.consts)}
                 ELSE decls
     /\ Log(Ev("exit_arrow", [block |-> Cur.block, consts |-> Top.consts, vars |-> Top.vars,
                              outer_vars |-> IF Scoped THEN frames[Len(frames) - 1].vars ELSE <<>>,
                              outer_consts |-> IF Scoped THEN frames[Len(frames) - 1].consts ELSE <<>>]))
     /\ frames' =
          IF Scoped
          THEN LET below == frames[Len(frames) - 1]
                   rest  == SubSeq(frames, 1, Len(frames) - 2)
               IN  IF converts \/ ~Cur.block
                   THEN Append(rest, below)                                   \* drained (or nothing pending)
                   ELSE Append(rest, [below EXCEPT !.vars = @ \o Top.vars, !.consts = @ \o Top.consts,
                                                   !.counter = Top.counter])  \* handed to the enclosing scope
          ELSE IF converts
               THEN SetTop([Top EXCEPT !.vars = <<>>, !.consts = <<>>, !.counter = IF Top.vars # <<>> THEN 1 ELSE @])
               ELSE frames
  /\ Advance /\ UNCHANGED <<mod, eos, ops, left, leftStack, helper, imports, uses>>

(* visit_mut_expr on `x = rhs`: the target is in effect while the right-hand side is visited *)
AssignEnter ==
  /\ ~Done /\ Cur.k = "assign_enter"
  /\ IF FreshLeft THEN /\ leftStack' = Append(leftStack, left) /\ left' = Cur.x
                       /\ Log(Ev("assign_enter", [sym |-> Cur.x]))
     ELSE UNCHANGED <<left, leftStack>> /\ UNCHANGED trace
  /\ Advance /\ UNCHANGED <<mod, eos, ops, frames, helper, imports, decls, uses>>

AssignExit ==
  /\ ~Done /\ Cur.k = "assign_exit"
  /\ IF FreshLeft THEN /\ left' = leftStack[Len(leftStack)] /\ leftStack' = SubSeq(leftStack, 1, Len(leftStack) - 1)
                       /\ Log(Ev("assign_exit", [restored |-> leftStack[Len(leftStack)]]))
     ELSE /\ left' = Cur.x /\ UNCHANGED leftStack          \* old behaviour: recorded after the RHS, never cleared
          /\ Log(Ev("assign_seen", [sym |-> Cur.x]))
  /\ Advance /\ UNCHANGED <<mod, eos, ops, frames, helper, imports, decls, uses>>

(* transform_jsx_element / transform_children for one JSX site *)
SiteStep ==
  /\ ~Done /\ Cur.k = "site"
  /\ CASE Cur.kind = "plain" ->
            /\ imports' = imports \cup {"createVNode"}
            /\ UNCHANGED <<frames, left, helper, uses, trace>>
       [] Cur.kind = "frag" ->
            /\ imports' = imports \cup {"createVNode", "Fragment"}
            /\ UNCHANGED <<frames, left, helper, uses, trace>>
       [] Cur.kind = "call" /\ eos ->    \* generate_unique_slot_ident, then build_iife takes the target
            LET n == SlotName(Top.counter) IN
            /\ frames' = SetTop([Top EXCEPT !.vars = Append(@, n), !.counter = @ + 1])
            /\ uses' = uses \cup {[name |-> n, scope |-> Cur.path, site |-> pc]}
            /\ helper' = TRUE
            /\ imports' = imports \cup {"createVNode", "resolveComponent", "isVNode"}
            /\ left' = ""
            /\ trace' = trace \o <<Ev("gen_slot", [name |-> n, counter |-> Top.counter + 1]), Ev("iife_take", [left |-> left])>>
       [] Cur.kind = "call" /\ ~eos ->   \* object slots off: the children are wrapped as they are - no temporary, no helper,
                                          \* build_iife is not reached (the target stays until its assignment ends)
            /\ imports' = imports \cup {"createVNode", "resolveComponent"}
            /\ UNCHANGED <<frames, left, helper, uses, trace>>
       [] Cur.kind = "ident" ->          \* build_iife: capture `a` iff it is the target in effect; the helper only for the slot test
            /\ helper' = (helper \/ eos)
            /\ imports' = imports \cup {"createVNode", "resolveComponent"} \cup (IF eos THEN {"isVNode"} ELSE {})
            /\ left' = ""
            /\ IF left = "a"
               THEN /\ frames' = SetTop([Top EXCEPT !.consts = Append(@, "_a")])
                    /\ uses' = uses \cup {[name |-> "_a", scope |-> Cur.path, site |-> pc]}
                    /\ trace' = trace \o <<Ev("iife_take", [left |-> left]), Ev("capture", [name |-> "_a"])>>
               ELSE /\ UNCHANGED <<frames, uses>>
                    /\ trace' = Append(trace, Ev("iife_take", [left |-> left]))
  /\ Advance /\ UNCHANGED <<mod, eos, ops, leftStack, decls>>

(* visit_mut_module, after the children: whatever is pending is declared at the top of the module *)
DrainModule ==
  /\ ~Done /\ Cur.k = "drain_module"
  /\ decls' = decls \cup {[name |-> Top.vars[i], scope |-> <<>>, kind |-> "let"] : i \in 1..Len(Top.vars)}
                    \cup {[name |-> Top.consts[i], scope |-> <<>>, kind |-> "const"] : i \in 1..Len(Top.consts)}
  /\ Log(Ev("drain_module", [consts |-> Top.consts, vars |-> Top.vars, slot_helper |-> helper]))
  /\ frames' = SetTop(Frame0)
  /\ Advance /\ UNCHANGED <<mod, eos, ops, left, leftStack, helper, imports, uses>>

Next == EnterStmts \/ ExitStmts \/ EnterArrow \/ ParamsDone \/ ExitArrow \/ AssignEnter \/ AssignExit \/ SiteStep \/ DrainModule

InitWith(Modules) ==
  /\ mod \in Modules /\ eos \in EosChoices
  /\ ops = Linearize(mod) /\ pc = 1
  /\ frames = <<Frame0>> /\ left = "" /\ leftStack = <<>>
  /\ helper = FALSE /\ imports = {} /\ decls = {} /\ uses = {} /\ trace = <<>>

(* ---------------------------------------------------------- invariants *)
IsPrefixPath(p, q) == Len(p) <= Len(q) /\ SubSeq(q, 1, Len(p)) = p

(* a use inside a parameter default or a class-field initialiser is not inside the statement list *)
(* of that function / class: its scope path ends in a 1000+i (parameter) / 2000+i (field) step    *)
(* that no statement-list path shares, so IsPrefixPath is exactly "the declaring list encloses    *)
(* the use".                                                                                       *)
ScopeOK == Done => \A u \in uses : \E d \in decls : d.name = u.name /\ IsPrefixPath(d.scope, u.scope)

(* every generated name is declared exactly once per use scope chain (no duplicate `let` in one list) *)
NoDuplicateDecl == \A d1, d2 \in decls : (d1.name = d2.name /\ d1.scope = d2.scope) => d1 = d2

NoLeak == Done => /\ Len(frames) = 1 /\ Top.vars = <<>> /\ Top.consts = <<>>
                  /\ leftStack = <<>>
DeclsUsed == Done => \A d \in decls : \E u \in uses : u.name = d.name /\ IsPrefixPath(d.scope, u.scope)
HelperIffNeeded == Done => (helper <=> (eos /\ \E i \in 1..Len(ops) : ops[i].k = "site" /\ ops[i].kind \in {"call", "ident"}))
FramesBalanced == Len(frames) >= 1 /\ (~Scoped => Len(frames) = 1)
TargetFresh == FreshLeft => (left # "" => leftStack # <<>>)      \* a target is only ever in effect inside its assignment

(* the captured copy is taken exactly for the sites that are the right-hand side of an assignment *)
(* to the identifier they render (uses carry the position of their site in the traversal)         *)
OwnAssignment(i) == i > 1 /\ ops[i - 1].k = "assign_enter" /\ ops[i - 1].x = "a"
CaptureOnlyOwn == \A u \in uses : u.name = "_a" => OwnAssignment(u.site)
CaptureWhenOwn == Done => \A i \in 1..Len(ops) :
                    (ops[i].k = "site" /\ ops[i].kind = "ident" /\ OwnAssignment(i)) => \E u \in uses : u.name = "_a" /\ u.site = i
=============================================================================
