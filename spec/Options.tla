-------------------------------- MODULE Options --------------------------------
(***************************************************************************)
(* C14 — the option record: documented defaults, the JSON spellings the     *)
(* plugin accepts, which feature each option governs.                       *)
(***************************************************************************)
EXTENDS Naturals, Sequences, FiniteSets, TLC, Json

BoolOptions == {"transformOn", "optimize", "mergeProps", "enableObjectSlots", "resolveType"}
Default(o) == o \in {"mergeProps", "enableObjectSlots"}       \* documented defaults: these two on, the rest off
DefaultCfg == [o \in BoolOptions |-> Default(o)] @@ [patterns |-> FALSE, pragma |-> FALSE]

Cfgs == {[o \in BoolOptions |-> f[o]] @@ [patterns |-> p, pragma |-> g] : f \in [BoolOptions -> BOOLEAN], p \in BOOLEAN, g \in BOOLEAN}

(* JSON texts *)
PatternJson(c) == IF c.patterns THEN <<"(?i)^ion-", "^widget$", "^i-">> ELSE <<>>
Explicit(c) == [o \in BoolOptions |-> c[o]] @@ [customElementPatterns |-> PatternJson(c)] @@ (IF c.pragma THEN [pragma |-> "hh"] ELSE <<>>)
Minimal(c) ==
  LET keys == {o \in BoolOptions : c[o] # Default(o)} IN
  [o \in keys |-> c[o]] @@ (IF c.patterns THEN [customElementPatterns |-> PatternJson(c)] ELSE <<>>) @@ (IF c.pragma THEN [pragma |-> "hh"] ELSE <<>>)
JsonText(r) == IF DOMAIN r = {} THEN "{}" ELSE ToJson(r)

(* the feature each option governs; an option not listed here (optimize, pragma) concerns every JSX element *)
Governs == [transformOn |-> "on", mergeProps |-> "merge", enableObjectSlots |-> "objslot", patterns |-> "customtag",
            resolveType |-> "definecomponent"]

(* two configurations between which a module that uses only the features `uses` cannot tell the difference *)
Indistinguishable(a, b, uses) ==
  \A o \in DOMAIN a : a[o] # b[o] => (o \in DOMAIN Governs /\ Governs[o] \notin uses)
=============================================================================
