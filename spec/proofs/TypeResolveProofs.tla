------------------------- MODULE TypeResolveProofs -------------------------
(***************************************************************************)
(* Unbounded safety of the depth guard of TypeResolve.tla, checked by the  *)
(* TLA+ proof system (tlapm): for EVERY set of names, every declaration    *)
(* graph and every MaxDepth, the call stack of the repaired resolver never *)
(* exceeds MaxDepth + 1 frames - so the native stack cannot overflow when  *)
(* MaxDepth + 1 <= StackLimit.  (TLC checks the same invariant, plus       *)
(* termination, for all graphs on three names.)                            *)
(***************************************************************************)
EXTENDS TypeResolve, SequenceTheorems, TLAPS

ASSUME ConstAssump == MaxDepth \in Nat /\ StackLimit \in Nat /\ Bounded \in BOOLEAN /\ Root \in Names

SafeSpec == Init /\ [][Next]_vars

TypeInv == /\ decl \in [Names -> Bodies]
           /\ stack \in Seq(Seq(Bodies))
Inv == TypeInv /\ (Bounded => Len(stack) <= MaxDepth + 1)

LEMMA BodiesChildren == ASSUME NEW t \in Bodies, decl \in [Names -> Bodies] PROVE Children(t) \in Seq(Bodies)
<1>1. CASE t = Leaf
  BY <1>1 DEF Children, Leaf
<1>2. CASE \E n \in Names : t = Ref(n)
  <2>1. PICK n \in Names : t = Ref(n) BY <1>2
  <2>2. Children(t) = <<decl[n]>> BY <2>1 DEF Children, Ref
  <2>3. decl[n] \in Bodies BY <2>1
  <2> QED BY <2>2, <2>3
<1>3. CASE \E a \in Names, b \in Names : t = Inter(Ref(a), Ref(b))
  <2>1. PICK a \in Names, b \in Names : t = Inter(Ref(a), Ref(b)) BY <1>3
  <2>2. Children(t) = <<Ref(a), Ref(b)>> BY <2>1 DEF Children, Inter, Ref
  <2>3. Ref(a) \in {Ref(n) : n \in Names} /\ Ref(b) \in {Ref(n) : n \in Names} BY DEF Ref
  <2>4. Ref(a) \in Bodies /\ Ref(b) \in Bodies BY <2>3 DEF Bodies, Ref, Inter, Leaf
  <2> QED BY <2>2, <2>4
<1>4. t \in {Leaf} \/ t \in {Ref(n) : n \in Names} \/ t \in Inters BY DEF Bodies
<1>5. t \in {Leaf} => t = Leaf BY DEF Leaf
<1>6. t \in {Ref(n) : n \in Names} => \E n \in Names : t = Ref(n) BY DEF Ref
<1>7. t \in Inters => \E a \in Names, b \in Names : t = Inter(Ref(a), Ref(b)) BY DEF Inters
<1> QED BY <1>1, <1>2, <1>3, <1>4, <1>5, <1>6, <1>7

LEMMA InitInv == Init => Inv
<1> SUFFICES ASSUME Init PROVE Inv OBVIOUS
<1>0. Ref(Root) \in {Ref(n) : n \in Names} BY ConstAssump DEF Ref
<1>1. Ref(Root) \in Bodies BY <1>0 DEF Bodies, Ref, Inter, Leaf
<1>2. stack = << <<Ref(Root)>> >> BY DEF Init
<1>3. <<Ref(Root)>> \in Seq(Bodies) BY <1>1
<1>4. stack \in Seq(Seq(Bodies)) /\ Len(stack) = 1 BY <1>2, <1>3
<1> QED BY <1>4, ConstAssump DEF Init, Inv, TypeInv

LEMMA StepInv == Inv /\ [Next]_vars => Inv'
<1> SUFFICES ASSUME Inv, [Next]_vars PROVE Inv'
  OBVIOUS
<1> USE ConstAssump
<1>t. stack \in Seq(Seq(Bodies)) /\ decl \in [Names -> Bodies] BY DEF Inv, TypeInv
<1>1. CASE Return
  <2>1. stack # <<>> /\ stack' = SubSeq(stack, 1, Len(stack) - 1) /\ decl' = decl BY <1>1 DEF Return, Pop
  <2>2. Len(stack) \in Nat /\ Len(stack) >= 1 BY <1>t, <2>1, EmptySeq
  <2>3. stack' \in Seq(Seq(Bodies)) /\ Len(stack') = Len(stack) - 1 BY <1>t, <2>1, <2>2, SubSeqProperties
  <2> QED BY <1>t, <2>1, <2>2, <2>3 DEF Inv, TypeInv
<1>2. CASE Call
  <2>0. stack # <<>> /\ Top # <<>> /\ decl' = decl BY <1>2 DEF Call
  <2>a. Len(stack) \in Nat /\ Len(stack) >= 1 BY <1>t, <2>0, EmptySeq
  <2>b. Top \in Seq(Bodies) BY <1>t, <2>a DEF Top
  <2>c. Head(Top) \in Bodies /\ Tail(Top) \in Seq(Bodies) BY <2>b, <2>0, HeadTailProperties
  <2> DEFINE rest == [stack EXCEPT ![Len(stack)] = Tail(Top)]
  <2>d. rest \in Seq(Seq(Bodies)) /\ Len(rest) = Len(stack) BY <1>t, <2>a, <2>c, ExceptSeq
  <2>e. Children(Head(Top)) \in Seq(Bodies) BY <2>c, <1>t, BodiesChildren
  <2>1. CASE poisoned
    <3>1. stack' = rest BY <1>2, <2>1 DEF Call
    <3> QED BY <3>1, <2>d, <2>0 DEF Inv, TypeInv
  <2>2. CASE ~poisoned /\ Bounded /\ Len(stack) > MaxDepth
    <3>1. stack' = rest BY <1>2, <2>2 DEF Call
    <3> QED BY <3>1, <2>d, <2>0 DEF Inv, TypeInv
  <2>3. CASE ~poisoned /\ ~(Bounded /\ Len(stack) > MaxDepth)
    <3>1. stack' = Append(rest, Children(Head(Top))) BY <1>2, <2>3 DEF Call
    <3>2. stack' \in Seq(Seq(Bodies)) /\ Len(stack') = Len(stack) + 1 BY <3>1, <2>d, <2>e, AppendProperties
    <3>3. Bounded => Len(stack) <= MaxDepth BY <2>3, <2>a
    <3> QED BY <3>2, <3>3, <2>a, <2>0 DEF Inv, TypeInv
  <2> QED BY <2>1, <2>2, <2>3
<1>3. CASE Finish
  BY <1>3 DEF Finish, Inv, TypeInv
<1>4. CASE UNCHANGED vars
  BY <1>4 DEF vars, Inv, TypeInv
<1> QED BY <1>1, <1>2, <1>3, <1>4 DEF Next

THEOREM DepthGuard == SafeSpec => []Inv
  BY InitInv, StepInv, PTL DEF SafeSpec

(* with the guard, the native stack limit is respected whenever it is at least MaxDepth + 1 *)
THEOREM NoOverflowFromGuard == (Bounded /\ MaxDepth + 1 <= StackLimit /\ Inv) => NoOverflow
<1> SUFFICES ASSUME Bounded, MaxDepth + 1 <= StackLimit, Inv PROVE NoOverflow OBVIOUS
<1>1. Len(stack) \in Nat BY LenProperties DEF Inv, TypeInv
<1> QED BY <1>1, ConstAssump DEF Inv, NoOverflow
=============================================================================
