------------------------------- MODULE SlotFlags -------------------------------
(* The state machine of the slot-flag stack; the linearisation (OpsOf) and the operator form of the run   *)
(* (Predict, used for the hook binding) are in SlotFlagsOps.tla, where the full description is.           *)
EXTENDS SlotFlagsOps

VARIABLES tree, opts, ops, pc, stack, events
vars == <<tree, opts, ops, pc, stack, events>>
view == <<tree, opts, pc, stack>>

InitWith(Trees) ==
  /\ \E c \in Trees : tree = c.elem /\ opts = c.opts
  /\ ops = OpsOf(tree, opts) /\ pc = 1 /\ stack = <<>> /\ events = <<>>

Done == pc > Len(ops)
Cur == ops[pc]

Push ==
  /\ ~Done /\ Cur.op = "push"
  /\ stack' = IF opts.optimize THEN Append(stack, STABLE) ELSE stack
  /\ events' = Append(events, IF Cur.frag THEN [ev |-> "enter_fragment", depth |-> Len(stack')]
                                 ELSE [ev |-> "enter_element", depth |-> Len(stack'), component |-> Cur.component])
  /\ pc' = pc + 1 /\ UNCHANGED <<tree, opts, ops>>

Fill ==
  /\ ~Done /\ Cur.op = "fill"
  /\ IF opts.optimize
     THEN /\ stack' = [i \in 1..Len(stack) |-> DYNAMIC]
          /\ events' = Append(events, [ev |-> "fill_dynamic", depth |-> Len(stack)])
     ELSE UNCHANGED <<stack, events>>
  /\ pc' = pc + 1 /\ UNCHANGED <<tree, opts, ops>>

Pop ==
  /\ ~Done /\ Cur.op = "pop"
  /\ LET flag == IF opts.optimize /\ stack # <<>> THEN stack[Len(stack)] ELSE STABLE IN
     /\ stack' = IF opts.optimize /\ stack # <<>> THEN SubSeq(stack, 1, Len(stack) - 1) ELSE stack
     /\ events' = Append(events, [ev |-> "exit_children", depth |-> Len(stack'), flag |-> flag, component |-> Cur.component])
  /\ pc' = pc + 1 /\ UNCHANGED <<tree, opts, ops>>

Next == Push \/ Fill \/ Pop

(* ---- properties ---- *)
StackBalancedAtEnd == Done => stack = <<>>
DepthBounded == Len(stack) <= Len(SelectSeq(ops, LAMBDA x : x.op = "push"))
(* the flag an element pops is Dynamic iff a bound identifier child occurs in it or below it *)
FlagSoundAtPop ==
  (~Done /\ Cur.op = "pop" /\ opts.optimize) => ((stack[Len(stack)] = DYNAMIC) <=> Cur.dyn)
NoFlagsWithoutOptimize == ~opts.optimize => stack = <<>>
(* every pop undoes exactly the push of its element: depth after the pop = depth before the push *)
RECURSIVE Matches(_, _, _)
Matches(evs, i, open) ==        \* open: depths recorded at the pending pushes
  IF i > Len(evs) THEN open = <<>>
  ELSE IF evs[i].ev \in {"enter_element", "enter_fragment"} THEN Matches(evs, i + 1, Append(open, evs[i].depth))
  ELSE IF evs[i].ev = "exit_children"
       THEN open # <<>> /\ evs[i].depth = open[Len(open)] - (IF opts.optimize THEN 1 ELSE 0)
            /\ Matches(evs, i + 1, SubSeq(open, 1, Len(open) - 1))
  ELSE Matches(evs, i + 1, open)
PushPopMatched == Done => Matches(events, 1, <<>>)
=============================================================================
