---------------------------- MODULE TypeResolveProps ----------------------------
(* The graph-theoretic side of TypeResolve.tla: which names lie on a cycle reachable from the root, and   *)
(* the invariant that the depth bound is hit exactly for those graphs.  Kept apart from the machine        *)
(* because it needs RECURSIVE operators, which the proof system (spec/proofs) does not accept.             *)
EXTENDS TypeResolve

RefsOf(t) == CASE t.k = "leaf" -> {} [] t.k = "ref" -> {t.n} [] t.k = "inter" -> {t.a.n, t.b.n}
RECURSIVE ReachFrom(_, _)
ReachFrom(S, n) ==           \* names reachable from the set S in at most n steps
  IF n = 0 THEN S ELSE ReachFrom(S \cup UNION {RefsOf(decl[m]) : m \in S}, n - 1)
Reachable == ReachFrom({Root}, Cardinality(Names))
OnCycle(m) == m \in ReachFrom(RefsOf(decl[m]), Cardinality(Names))
CycleReachable == \E m \in Reachable : OnCycle(m)

ReportsCycles == done => (poisoned <=> (Bounded /\ CycleReachable))
=============================================================================
