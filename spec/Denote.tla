-------------------------------- MODULE Denote --------------------------------
(***************************************************************************)
(* Reference semantics: what a source JSX element denotes at runtime        *)
(* (vnode type, props, children / slots, directive bindings).  Nothing here *)
(* mentions how the implementation lowers anything.  Where the properties   *)
(* are silent the denotation is a set (OneOf / Any), DESIGN §6.0.           *)
(***************************************************************************)
EXTENDS Source

Name(s)  == [t |-> "name", s |-> s]          \* a string compared by its (ASCII) text
TextV(cp) == [t |-> "text", cp |-> cp]       \* a text vnode
NullObj  == [t |-> "nullobj"]                \* no props: null or an empty object

(* ---- host classification and vnode type ---- *)
IsComponentHost(tag, o) ==
  CASE tag.k \in {"html", "Fragment", "KeepAlive", "frag"} -> FALSE
    [] tag.k = "custom" -> ~AnyPatternMatches(o, tag.name)
    [] OTHER -> TRUE

TagDenotes(tag, o) ==
  CASE tag.k = "html"   -> Name(tag.name)
    [] tag.k = "custom" -> IF AnyPatternMatches(o, tag.name) THEN Name(tag.name)
                           ELSE [t |-> "resolved", kind |-> "component", name |-> tag.name]
    [] tag.k = "comp"   -> IF tag.bound THEN tag.rv
                           ELSE [t |-> "resolved", kind |-> "component", name |-> tag.name]
    [] tag.k \in {"member", "this"} -> tag.rv
    [] tag.k \in {"Fragment", "frag"} -> [t |-> "fragment"]
    [] tag.k = "KeepAlive" -> OneOf(<<[t |-> "keepalive"],
                                     [t |-> "resolved", kind |-> "component", name |-> "KeepAlive"]>>)

(* ---- props ---- *)
AttrKey(a) == IF a.k = "ns" THEN a.ns \o ":" \o a.name ELSE a.name
AttrValue(a) ==
  CASE a.val.k = "none" -> Bool(TRUE)
    [] a.val.k = "str"  -> Str(CleanText(SymsCp(a.val.syms)))
    [] a.val.k = "expr" -> Eval(a.val.e)

(* the object each attribute contributes, in source order *)
PropArg(a, o, host) ==
  CASE a.k \in {"plain", "ns"} ->
         IF a.k = "plain" /\ a.name \in {"on", "nativeOn"} /\ o.transformOn
         THEN <<TransformOn(AttrValue(a))>>
         ELSE <<Obj(<< <<AttrKey(a), AttrValue(a)>> >>)>>
    [] a.k = "spread" -> <<Eval(a.e)>>
    [] a.k = "vhtml"  -> <<Obj(<< <<"innerHTML", Eval(a.e)>> >>)>>
    [] a.k = "vtext"  -> <<Obj(<< <<"textContent", Eval(a.e)>> >>)>>
    [] OTHER -> <<>>

RECURSIVE PropArgs(_, _, _, _)
PropArgs(attrs, o, host, i) ==
  IF i > Len(attrs) THEN <<>> ELSE PropArg(attrs[i], o, host) \o PropArgs(attrs, o, host, i + 1)

PropsDenoteArgs(args, o) ==
  IF args = <<>> THEN NullObj
  ELSE VNodeProps(IF o.mergeProps THEN MergeProps(args) ELSE ObjectSpread(args))

(* ---- children of non-component hosts ---- *)
RECURSIVE ChildrenList(_, _, _), DenoteElem(_, _)
ChildItems(c, o) ==
  CASE c.k = "text"   -> LET t == CleanText(SymsCp(c.syms)) IN IF t = <<>> THEN <<>> ELSE <<TextV(t)>>
    [] c.k = "expr"   -> <<Eval(c.e)>>
    [] c.k \in {"empty", "comment"} -> <<>>
    [] c.k = "spread" -> LET v == Eval(c.e) IN IF v.t = "arr" THEN v.xs ELSE <<[t |-> "unspreadable"]>>
    [] c.k = "elem"   -> <<DenoteElem(c.el, o)>>
ChildrenList(cs, o, i) ==
  IF i > Len(cs) THEN <<>> ELSE ChildItems(cs[i], o) \o ChildrenList(cs, o, i + 1)

(* consecutive text atoms of an abstract child sequence are one written text run *)
RECURSIVE Coalesce(_)
Coalesce(cs) ==
  IF Len(cs) < 2 THEN cs
  ELSE IF cs[1].k = "text" /\ cs[2].k = "text"
       THEN Coalesce(<<ChText(cs[1].syms \o cs[2].syms)>> \o SubSeq(cs, 3, Len(cs)))
       ELSE <<cs[1]>> \o Coalesce(Tail(cs))

(* does a written child contribute to the child list at all? *)
Contributes(c) ==
  CASE c.k = "text" -> CleanText(SymsCp(c.syms)) # <<>>
    [] c.k \in {"empty", "comment"} -> FALSE
    [] OTHER -> TRUE

ChildrenDenote(cs, o) ==
  LET ccs == Coalesce(cs) IN
  IF \A i \in 1..Len(ccs) : ~Contributes(ccs[i]) THEN Null     \* no remaining children: null
  ELSE Arr(ChildrenList(ccs, o, 1))                             \* (a spread may still splice nothing)

Factory(o) == IF o.pragma = "" THEN "createVNode" ELSE o.pragma

DenoteElem(el, o) ==
  LET host == IsComponentHost(el.tag, o) IN
  [t |-> "vnode", factory |-> Factory(o),
   type |-> TagDenotes(el.tag, o),
   props |-> PropsDenoteArgs(PropArgs(el.attrs, o, host, 1), o),
   children |-> IF host THEN AnyV ELSE ChildrenDenote(el.children, o),
   dirs |-> AnyV]

(* ---- comparison of an observed canonical value with a denotation ---- *)
RECURSIVE ClassTokens(_, _, _)
ClassTokens(cp, i, cur) ==      \* split on JS whitespace, drop empties
  IF i > Len(cp) THEN (IF cur = <<>> THEN <<>> ELSE <<cur>>)
  ELSE IF cp[i] \in JsWhitespace THEN (IF cur = <<>> THEN <<>> ELSE <<cur>>) \o ClassTokens(cp, i + 1, <<>>)
  ELSE ClassTokens(cp, i + 1, Append(cur, cp[i]))

SeqToSet(xs) == {xs[i] : i \in 1..Len(xs)}
ListenerSet(v) == IF v.t = "arr" THEN SeqToSet(v.xs) ELSE IF Truthy(v) THEN {v} ELSE {}

RECURSIVE Accepts(_, _), AcceptsSeq(_, _), AcceptsEntries(_, _), AcceptsProps(_, _)
AcceptsSeq(os, ds) == Len(os) = Len(ds) /\ \A i \in 1..Len(ds) : Accepts(os[i], ds[i])
AcceptsEntries(oes, des) ==       \* as maps: same keys, each value accepted
  /\ \A i \in 1..Len(des) : ObjHas(oes, des[i][1]) /\ Accepts(ObjGet(oes, des[i][1]), des[i][2])
  /\ \A i \in 1..Len(oes) : ObjHas(des, oes[i][1])
PropKeyRelevant(es, k) ==         \* a falsy listener is the same as no listener
  ~(IsOnKey(k) /\ ~Truthy(ObjGet(es, k)))
AcceptsProps(o, d) ==
  IF d.t = "nullobj" THEN o.t = "null" \/ (o.t = "obj" /\ \A i \in 1..Len(o.es) : ~PropKeyRelevant(o.es, o.es[i][1]))
  ELSE IF d.t # "obj" THEN Accepts(o, d)
  ELSE IF o.t = "null" THEN \A i \in 1..Len(d.es) : ~PropKeyRelevant(d.es, d.es[i][1])
  ELSE /\ o.t = "obj"
       /\ \A i \in 1..Len(d.es) : LET k == d.es[i][1] IN PropKeyRelevant(d.es, k) =>
             /\ ObjHas(o.es, k)
             /\ LET ov == ObjGet(o.es, k)  dv == d.es[i][2] IN
                CASE k = "class" /\ dv.t = "str" -> ov.t = "str" /\ SeqToSet(ClassTokens(ov.cp, 1, <<>>)) = SeqToSet(ClassTokens(dv.cp, 1, <<>>))
                  [] IsOnKey(k) /\ dv.t # "upd" -> ListenerSet(ov) = ListenerSet(dv)
                  [] OTHER -> Accepts(ov, dv)
       /\ \A i \in 1..Len(o.es) : LET k == o.es[i][1] IN PropKeyRelevant(o.es, k) => ObjHas(d.es, k) /\ PropKeyRelevant(d.es, k)

Accepts(o, d) ==
  CASE d.t = "any"   -> TRUE
    [] d.t = "oneof" -> \E i \in 1..Len(d.alts) : Accepts(o, d.alts[i])
    [] d.t = "str"   -> o.t = "str" /\ o.cp = d.cp
    [] d.t = "name"  -> o.t = "str" /\ o.s = d.s
    [] d.t = "text"  -> o.t = "text" /\ o.cp = d.cp
    [] d.t = "arr"   -> o.t = "arr" /\ AcceptsSeq(o.xs, d.xs)
    [] d.t = "obj"   -> o.t = "obj" /\ AcceptsEntries(o.es, d.es)
    [] d.t = "nullobj" -> AcceptsProps(o, d)
    [] d.t = "vnode" -> /\ o.t = "vnode"
                        /\ o.factory = d.factory
                        /\ Accepts(o.type, d.type)
                        /\ AcceptsProps(o.props, d.props)
                        /\ Accepts(o.children, d.children)
                        /\ (d.dirs.t = "any" \/ AcceptsSeq(o.dirs, d.dirs.xs))
    [] OTHER -> o = d

(* first component of a vnode that is not accepted ("" = accepted) *)
WhyNot(o, d) ==
  IF d.t # "vnode" THEN (IF Accepts(o, d) THEN "" ELSE "value")
  ELSE IF o.t # "vnode" THEN "not-a-vnode:" \o o.t
  ELSE IF o.factory # d.factory THEN "factory"
  ELSE IF ~Accepts(o.type, d.type) THEN "type"
  ELSE IF ~AcceptsProps(o.props, d.props) THEN "props"
  ELSE IF ~Accepts(o.children, d.children) THEN "children"
  ELSE IF ~(d.dirs.t = "any" \/ AcceptsSeq(o.dirs, d.dirs.xs)) THEN "dirs"
  ELSE ""
=============================================================================
