-------------------------------- MODULE Denote --------------------------------
(***************************************************************************)
(* Reference semantics: what a source JSX element denotes at runtime        *)
(* (vnode type, props, children / slots, directive bindings).  Nothing here *)
(* mentions how the implementation lowers anything.  Where the properties   *)
(* are silent the denotation is a set (OneOf / Any), DESIGN §6.0.           *)
(***************************************************************************)
EXTENDS Source

Name(s)  == [t |-> "name", s |-> s]          \* a string compared by its (ASCII) text
TextV(cp) == [t |-> "text", cp |-> cp]       \* a text vnode
NullObj  == [t |-> "nullobj"]                \* no props: null or an empty object

(* ---- host classification and vnode type ---- *)
IsComponentHost(tag, o) ==
  CASE tag.k \in {"html", "Fragment", "KeepAlive", "frag"} -> FALSE
    [] tag.k = "custom" -> ~AnyPatternMatches(o, tag.name)
    [] OTHER -> TRUE

TagDenotes(tag, o) ==
  CASE tag.k = "html"   -> Name(tag.name)
    [] tag.k = "custom" -> IF AnyPatternMatches(o, tag.name) THEN Name(tag.name)
                           ELSE IF tag.bound THEN tag.rv
                           ELSE [t |-> "resolved", kind |-> "component", name |-> tag.name]
    [] tag.k = "comp"   -> IF tag.bound THEN tag.rv
                           ELSE [t |-> "resolved", kind |-> "component", name |-> tag.name]
    [] tag.k \in {"member", "this"} -> tag.rv
    [] tag.k \in {"Fragment", "frag"} -> [t |-> "fragment"]
    [] tag.k = "KeepAlive" -> OneOf(<<[t |-> "keepalive"],
                                     [t |-> "resolved", kind |-> "component", name |-> "KeepAlive"]>>)

(* ---- props ---- *)
AttrKey(a) == IF a.k = "ns" THEN a.ns \o ":" \o a.name ELSE a.name
AttrValue(a) ==
  CASE a.val.k = "none" -> Bool(TRUE)
    [] a.val.k = "str"  -> Str(CleanText(SymsCp(a.val.syms)))
    [] a.val.k = "expr" -> Eval(a.val.e)
    [] a.val.k = "elem" -> AnyV                  \* some vnode (its own denotation is decided where it is written as a child)

(* ---- directives (C04) and v-model (C05) ---- *)
RECURSIVE JoinWords(_, _, _)
JoinWords(ws, i, camel) ==
  IF i > Len(ws) THEN ""
  ELSE (IF i = 1 THEN ws[1] ELSE IF camel THEN Capitalize(ws[i]) ELSE "-" \o ws[i]) \o JoinWords(ws, i + 1, camel)
DirName(a) == JoinWords(a.words, 1, a.style = "camel")   \* prefix removed, first letter lower-cased

ModsObj(ms) == Obj([i \in 1..Len(ms) |-> <<ms[i], Bool(TRUE)>>])
NoArg  == OneOf(<<Absent, Undef>>)
NoMods == OneOf(<<Absent, Undef, Obj(<<>>)>>)

DirValue(val) ==
  CASE val.k = "none" -> AnyV
    [] val.k = "str"  -> Str(SymsCp(val.syms))
    [] val.k = "expr" -> Eval(val.e)
    [] val.k = "arr"  -> Eval(val.v)
DirArg(a) ==
  IF a.arg # "" THEN (IF a.val.k = "arr" /\ a.val.hasArg THEN OneOf(<<Name(a.arg), Eval(a.val.arg)>>)   \* both written: not ranked (6.0)
                      ELSE Name(a.arg))
  ELSE IF a.val.k = "arr" /\ a.val.hasArg THEN Eval(a.val.arg) ELSE NoArg
DirMods(a) ==
  IF a.mods # <<>> THEN ModsObj(a.mods)
  ELSE IF a.val.k = "arr" /\ a.val.hasMods /\ a.val.mods # <<>> THEN ModsObj(a.val.mods) ELSE NoMods

DirBinding(a) ==
  [dir |-> IF DirName(a) = "show" THEN [t |-> "vdir", name |-> "vShow"]
           ELSE [t |-> "resolved", kind |-> "directive", name |-> DirName(a)],
   value |-> DirValue(a.val), arg |-> DirArg(a), mods |-> DirMods(a)]

(* which Vue model directive a form element gets *)
TypeAttr(attrs) ==
  LET idx == {i \in 1..Len(attrs) : attrs[i].k = "plain" /\ attrs[i].name = "type"} IN
  IF idx = {} THEN [k |-> "absent"] ELSE attrs[CHOOSE i \in idx : \A j \in idx : i <= j].val
ModelDirective(el) ==
  LET vd(n) == [t |-> "vdir", name |-> n] IN
  IF el.tag.k # "html" THEN AnyV
  ELSE CASE el.tag.name = "select"   -> vd("vModelSelect")
         [] el.tag.name = "textarea" -> vd("vModelText")
         [] el.tag.name = "input" ->
              LET ty == TypeAttr(el.attrs) IN
              (CASE ty.k = "absent" -> vd("vModelText")
                 [] ty.k = "str" -> IF ty.syms = <<"w_checkbox">> THEN vd("vModelCheckbox")
                                    ELSE IF ty.syms = <<"w_radio">> THEN vd("vModelRadio") ELSE vd("vModelText")
                 \* a string literal written in braces is still a statically known type: the specific directive
                 \* and vModelDynamic (which dispatches on el.type at run time) both bind it correctly
                 [] ty.k = "expr" /\ ty.e.k = "lit" /\ ty.e.v.t = "str" ->
                      OneOf(<<vd("vModelDynamic"),
                              IF ty.e.v.cp = <<99, 104, 101, 99, 107, 98, 111, 120>> THEN vd("vModelCheckbox")
                              ELSE IF ty.e.v.cp = <<114, 97, 100, 105, 111>> THEN vd("vModelRadio") ELSE vd("vModelText")>>)
                 [] OTHER -> vd("vModelDynamic"))
         [] OTHER -> AnyV

VModelArgName(m) ==              \* the prop name a component receives the value under (TLA+ string)
  CASE m.argform = "none" -> "modelValue"
    [] m.argform \in {"colon", "str2"} -> m.arg
    [] m.argform = "computed2" -> Eval(m.argexpr).s
VModelMods(m) == IF m.modform = "none" \/ m.mods = <<>> THEN <<>> ELSE m.mods
TargetName(t) == IF t.k = "ident" THEN t.name ELSE t.obj \o "." \o t.prop
Upd(m) == [t |-> "upd", target |-> TargetName(m.target)]

VModelBinding(m, el) ==
  [dir |-> ModelDirective(el), value |-> Eval(m.target),
   arg |-> CASE m.argform = "none" -> NoArg
             [] m.argform \in {"colon", "str2"} -> Name(m.arg)
             [] OTHER -> Eval(m.argexpr),
   mods |-> IF VModelMods(m) = <<>> THEN NoMods ELSE ModsObj(VModelMods(m))]

(* Deviation (known finding, DESIGN 7 #15): the listener key of a computed v-model argument is   *)
(* built as "onUpdate" + arg, without the colon.                                                  *)
UpdKey(m, n, o) ==
  IF m.argform = "computed2" /\ "Dev_ComputedModelListenerNoColon" \in o.devs THEN "onUpdate" \o n ELSE "onUpdate:" \o n

VModelPropArg(m, host, alt, o) ==
  IF host THEN
    LET n == VModelArgName(m) IN
    <<Obj(<< <<n, Eval(m.target)>> >>
          \o (IF VModelMods(m) = <<>> THEN <<>>
              ELSE << <<(IF n = "modelValue" THEN "model" ELSE n) \o "Modifiers", ModsObj(VModelMods(m))>> >>)
          \o << <<UpdKey(m, n, o), Upd(m)>> >>)>>
  ELSE <<Obj(<< <<(IF alt = 2 /\ m.argform # "none" THEN UpdKey(m, VModelArgName(m), o) ELSE "onUpdate:modelValue"), Upd(m)>> >>)>>
       \* v-model:arg on a form *element*: either listener key is accepted (DESIGN 6.0)

(* the object each attribute contributes, in source order *)
PropArg(a, o, host, alt) ==
  CASE a.k \in {"plain", "ns"} ->
         IF a.k = "plain" /\ a.name \in {"on", "nativeOn"} /\ o.transformOn
         THEN <<TransformOn(AttrValue(a))>>
         ELSE <<Obj(<< <<AttrKey(a), AttrValue(a)>> >>)>>
    [] a.k = "spread" -> <<Eval(a.e)>>
    [] a.k = "vhtml"  -> <<Obj(<< <<"innerHTML", DirValue(a.val)>> >>)>>
    [] a.k = "vtext"  -> <<Obj(<< <<"textContent", DirValue(a.val)>> >>)>>
    [] a.k = "vmodel" -> VModelPropArg(a, host, alt, o)
    [] OTHER -> <<>>

RECURSIVE PropArgs(_, _, _, _, _)
PropArgs(attrs, o, host, i, alt) ==
  IF i > Len(attrs) THEN <<>> ELSE PropArg(attrs[i], o, host, alt) \o PropArgs(attrs, o, host, i + 1, alt)

(* v-models is the same-order sequence of the v-model attributes it lists *)
RECURSIVE ExpandVModels(_)
ExpandVModels(attrs) ==
  IF attrs = <<>> THEN <<>>
  ELSE (IF Head(attrs).k = "vmodels" THEN Head(attrs).list ELSE <<Head(attrs)>>) \o ExpandVModels(Tail(attrs))

RECURSIVE DirBindings(_, _, _, _)
DirBindings(attrs, el, host, i) ==
  IF i > Len(attrs) THEN <<>>
  ELSE (CASE attrs[i].k = "dir" -> <<[t |-> "binding"] @@ DirBinding(attrs[i])>>
          [] attrs[i].k = "vmodel" /\ ~host -> <<[t |-> "binding"] @@ VModelBinding(attrs[i], el)>>
          [] OTHER -> <<>>) \o DirBindings(attrs, el, host, i + 1)

(* Vue's merging applies where something is combined: a spread (or a transformOn object), or a   *)
(* repeated key; a lone written attribute is passed as written (C14: "mergeProps only elements  *)
(* with a spread or repeated attribute").                                                        *)
SharesKey(a, b) == \E i \in 1..Len(EntriesOf(a)) : ObjHas(EntriesOf(b), EntriesOf(a)[i][1])
Combines(args, spreadLike) ==
  spreadLike \/ \E i, j \in 1..Len(args) : i < j /\ SharesKey(args[i], args[j])

PropsDenoteArgs(args, o, spreadLike) ==
  IF args = <<>> THEN NullObj
  ELSE VNodeProps(IF o.mergeProps /\ Combines(args, spreadLike) THEN MergeProps(args) ELSE ObjectSpread(args))

(* ---- children of non-component hosts ---- *)
RECURSIVE ChildrenList(_, _, _), DenoteElem(_, _)
ChildItems(c, o) ==
  CASE c.k = "text"   -> LET t == CleanText(SymsCp(c.syms)) IN IF t = <<>> THEN <<>> ELSE <<TextV(t)>>
    [] c.k = "expr"   -> <<Eval(c.e)>>
    [] c.k \in {"empty", "comment"} -> <<>>
    [] c.k = "spread" -> LET v == Eval(c.e) IN IF v.t = "arr" THEN v.xs ELSE <<[t |-> "unspreadable"]>>
    [] c.k = "elem"   -> <<DenoteElem(c.el, o)>>
ChildrenList(cs, o, i) ==
  IF i > Len(cs) THEN <<>> ELSE ChildItems(cs[i], o) \o ChildrenList(cs, o, i + 1)

(* consecutive text atoms of an abstract child sequence are one written text run *)
RECURSIVE Coalesce(_)
Coalesce(cs) ==
  IF Len(cs) < 2 THEN cs
  ELSE IF cs[1].k = "text" /\ cs[2].k = "text"
       THEN Coalesce(<<ChText(cs[1].syms \o cs[2].syms)>> \o SubSeq(cs, 3, Len(cs)))
       ELSE <<cs[1]>> \o Coalesce(Tail(cs))

(* does a written child contribute to the child list at all? *)
Contributes(c) ==
  CASE c.k = "text" -> CleanText(SymsCp(c.syms)) # <<>>
    [] c.k \in {"empty", "comment"} -> FALSE
    [] OTHER -> TRUE

ChildrenDenote(cs, o) ==
  LET ccs == Coalesce(cs) IN
  IF \A i \in 1..Len(ccs) : ~Contributes(ccs[i]) THEN Null     \* no remaining children: null
  ELSE Arr(ChildrenList(ccs, o, 1))                             \* (a spread may still splice nothing)

Factory(o) == IF o.pragma = "" THEN "createVNode" ELSE o.pragma

(* ---- slots of component hosts (C03) ---- *)
Thunk(id, ret) == [t |-> "thunk", id |-> id, ret |-> ret]    \* id "" = any function
Slots(es)      == [t |-> "slots", es |-> es]
HasRet(v)      == "ret" \in DOMAIN v

SlotOfValue(v) == IF v.t = "fn" THEN Thunk(v.id, IF HasRet(v) THEN v.ret ELSE AnyV) ELSE v
AsSlotEntries(v) ==                 \* a runtime value used as the slots of a component
  CASE v.t = "fn"  -> << <<"default", SlotOfValue(v)>> >>
    [] v.t = "obj" -> [i \in 1..Len(v.es) |-> <<v.es[i][1], SlotOfValue(v.es[i][2])>>]
    [] OTHER -> <<>>

(* the value of a function expression written in the source, as a slot *)
SlotOfExpr(e) ==
  IF e.k \in {"arrow", "fnexpr"} THEN Thunk("anon", Eval(e.body))
  ELSE SlotOfValue(Eval(e))
RECURSIVE ObjLitSlots(_, _)
ObjLitSlots(es, i) ==          \* (`_` is the reserved slot-flag entry, not a slot)
  IF i > Len(es) THEN <<>>
  ELSE (IF es[i][1] = "_" THEN <<>> ELSE << <<es[i][1], SlotOfExpr(es[i][2])>> >>) \o ObjLitSlots(es, i + 1)
ExprAsSlotEntries(e) == IF e.k = "objlit" THEN ObjLitSlots(e.es, 1) ELSE AsSlotEntries(Eval(e))

VSlotsOf(attrs) ==                   \* entries contributed by a v-slots attribute (<<>> if none)
  LET idx == {i \in 1..Len(attrs) : attrs[i].k = "vslots"} IN
  IF idx = {} THEN <<>> ELSE ExprAsSlotEntries(attrs[CHOOSE i \in idx : TRUE].e)
HasVSlots(attrs) == \E i \in 1..Len(attrs) : attrs[i].k = "vslots"

SlotsDenote(el, o) ==
  LET ccs   == SelectSeq(Coalesce(el.children), Contributes)
      vs    == VSlotsOf(el.attrs)
      wrapped == Slots(<< <<"default", Thunk("", Arr(ChildrenList(ccs, o, 1)))>> >> \o vs)
  IN
  IF ccs = <<>> THEN (IF HasVSlots(el.attrs) THEN Slots(vs) ELSE Null)
  ELSE IF Len(ccs) = 1 /\ ccs[1].k = "expr" THEN
       LET e == Peel(ccs[1].e) IN
       CASE e.k \in {"ident", "call"} ->
              IF HasVSlots(el.attrs) THEN wrapped    \* beside `v-slots` the child is the default slot (no runtime decision: the
                                                     \* v-slots value must be evaluated and used, C11)
              ELSE IF o.enableObjectSlots /\ IsSlotValue(Eval(e))
              THEN Slots(AsSlotEntries(Eval(e)))     \* passed through as the slots
              ELSE wrapped
         [] e.k \in {"arrow", "fnexpr"} -> Slots(<< <<"default", SlotOfExpr(e)>> >> \o vs)
         [] e.k = "objlit" -> IF HasVSlots(el.attrs)
                              THEN OneOf(<<Slots(ObjLitSlots(e.es, 1)), Slots(ObjLitSlots(e.es, 1) \o vs)>>)
                              ELSE Slots(ObjLitSlots(e.es, 1))
         [] OTHER -> wrapped
  ELSE wrapped

DenoteElem(el, o) ==
  LET host  == IsComponentHost(el.tag, o)
      attrs == ExpandVModels(el.attrs)
      spreadLike == \E i \in 1..Len(attrs) : \/ attrs[i].k = "spread"
                                               \/ (o.transformOn /\ attrs[i].k = "plain" /\ attrs[i].name \in {"on", "nativeOn"})
      P(alt) == PropsDenoteArgs(PropArgs(attrs, o, host, 1, alt), o, spreadLike)
      argModelOnElement == ~host /\ \E i \in 1..Len(attrs) : attrs[i].k = "vmodel" /\ attrs[i].argform # "none"
  IN
  [t |-> "vnode", factory |-> Factory(o),
   type |-> TagDenotes(el.tag, o),
   props |-> IF argModelOnElement THEN OneOf(<<P(1), P(2)>>) ELSE P(1),
   children |-> IF host THEN SlotsDenote(el, o) ELSE ChildrenDenote(el.children, o),
   dirs |-> [t |-> "dirs", xs |-> DirBindings(attrs, el, host, 1)]]

(* ---- comparison of an observed canonical value with a denotation ---- *)
RECURSIVE ClassTokens(_, _, _)
ClassTokens(cp, i, cur) ==      \* split on JS whitespace, drop empties
  IF i > Len(cp) THEN (IF cur = <<>> THEN <<>> ELSE <<cur>>)
  ELSE IF cp[i] \in JsWhitespace THEN (IF cur = <<>> THEN <<>> ELSE <<cur>>) \o ClassTokens(cp, i + 1, <<>>)
  ELSE ClassTokens(cp, i + 1, Append(cur, cp[i]))

(* what Vue will invoke for a listener prop: nested arrays flattened, falsy members dropped *)
RECURSIVE ListenerSeq(_), ListenerSeqOf(_, _)
ListenerSeqOf(xs, i) == IF i > Len(xs) THEN <<>> ELSE ListenerSeq(xs[i]) \o ListenerSeqOf(xs, i + 1)
ListenerSeq(v) == IF v.t = "arr" THEN ListenerSeqOf(v.xs, 1) ELSE IF Truthy(v) THEN <<v>> ELSE <<>>

SeqToSet(xs) == {xs[i] : i \in 1..Len(xs)}
RECURSIVE Accepts(_, _), AcceptsSeq(_, _), AcceptsEntries(_, _), AcceptsProps(_, _)
AcceptsSeq(os, ds) == Len(os) = Len(ds) /\ \A i \in 1..Len(ds) : Accepts(os[i], ds[i])
AcceptsEntries(oes, des) ==       \* as maps: same keys, each value accepted
  /\ \A i \in 1..Len(des) : ObjHas(oes, des[i][1]) /\ Accepts(ObjGet(oes, des[i][1]), des[i][2])
  /\ \A i \in 1..Len(oes) : ObjHas(des, oes[i][1])
PropKeyRelevant(es, k) ==         \* a listener prop with nothing to invoke is the same as no listener,
  /\ ~(IsOnKey(k) /\ ObjGet(es, k).t # "upd" /\ ListenerSeq(ObjGet(es, k)) = <<>>)
  /\ ~(k = "class" /\ (IsNullish(ObjGet(es, k))            \* ... an empty class the same as no class
                       \/ (ObjGet(es, k).t = "str" /\ ClassTokens(ObjGet(es, k).cp, 1, <<>>) = <<>>)))
AcceptsProps(o, d) ==
  IF d.t = "oneof" THEN \E i \in 1..Len(d.alts) : AcceptsProps(o, d.alts[i])
  ELSE IF d.t = "nullobj" THEN o.t = "null" \/ (o.t = "obj" /\ \A i \in 1..Len(o.es) : ~PropKeyRelevant(o.es, o.es[i][1]))
  ELSE IF d.t # "obj" THEN Accepts(o, d)
  ELSE IF o.t = "null" THEN \A i \in 1..Len(d.es) : ~PropKeyRelevant(d.es, d.es[i][1])
  ELSE /\ o.t = "obj"
       /\ \A i \in 1..Len(d.es) : LET k == d.es[i][1] IN PropKeyRelevant(d.es, k) =>
             /\ ObjHas(o.es, k)
             /\ LET ov == ObjGet(o.es, k)  dv == d.es[i][2] IN
                CASE k = "class" /\ dv.t = "str" -> ov.t = "str" /\ SeqToSet(ClassTokens(ov.cp, 1, <<>>)) = SeqToSet(ClassTokens(dv.cp, 1, <<>>))
                  [] IsOnKey(k) /\ dv.t # "upd" ->      \* listener lists are compared as sets
                       LET os == ListenerSeq(ov)  ds == ListenerSeq(dv) IN
                       /\ \A p \in 1..Len(ds) : \E q \in 1..Len(os) : Accepts(os[q], ds[p])
                       /\ \A q \in 1..Len(os) : \E p \in 1..Len(ds) : Accepts(os[q], ds[p])
                  [] OTHER -> Accepts(ov, dv)
       /\ \A i \in 1..Len(o.es) : LET k == o.es[i][1] IN PropKeyRelevant(o.es, k) => ObjHas(d.es, k) /\ PropKeyRelevant(d.es, k)

Accepts(o, d) ==
  CASE d.t = "any"   -> TRUE
    [] d.t = "oneof" -> \E i \in 1..Len(d.alts) : Accepts(o, d.alts[i])
    [] d.t = "str"   -> o.t = "str" /\ o.cp = d.cp
    [] d.t = "name"  -> o.t = "str" /\ o.s = d.s
    [] d.t = "text"  -> o.t = "text" /\ o.cp = d.cp
    [] d.t = "arr"   -> o.t = "arr" /\ AcceptsSeq(o.xs, d.xs)
    [] d.t = "obj"   -> o.t = "obj" /\ AcceptsEntries(o.es, d.es)
    [] d.t = "nullobj" -> AcceptsProps(o, d)
    [] d.t = "fn"    -> o.t = "fn" /\ o.id = d.id
    [] d.t = "thunk" -> /\ o.t = "thunk" /\ (d.id = "" \/ o.id = d.id)
                        /\ \A i \in 1..Len(o.calls) : Accepts(o.calls[i], d.ret)
    [] d.t = "slots" -> o.t = "slots" /\ AcceptsEntries(o.es, d.es)
    [] d.t = "binding" -> /\ Accepts(o.dir, d.dir) /\ Accepts(o.value, d.value)
                          /\ Accepts(o.arg, d.arg) /\ Accepts(o.mods, d.mods)
    [] d.t = "upd" ->     \* firing the listener with a sentinel assigned it to the bound target, and only there
         /\ o.t = "upd" /\ o.err.t = "none"
         /\ \E i \in 1..Len(o.after) : o.after[i][1] = d.target
         /\ \A i \in 1..Len(o.after) : (o.after[i][1] = d.target) <=> (o.after[i][2] = Opq(o.sent))
    [] d.t = "vnode" -> /\ o.t = "vnode"
                        /\ o.factory = d.factory
                        /\ Accepts(o.type, d.type)
                        /\ AcceptsProps(o.props, d.props)
                        /\ Accepts(o.children, d.children)
                        /\ (d.dirs.t = "any" \/ AcceptsSeq(o.dirs, d.dirs.xs))
    [] OTHER -> o = d

(* first component of a vnode that is not accepted ("" = accepted) *)
WhyNot(o, d) ==
  IF d.t # "vnode" THEN (IF Accepts(o, d) THEN "" ELSE "value")
  ELSE IF o.t # "vnode" THEN "not-a-vnode:" \o o.t
  ELSE IF o.factory # d.factory THEN "factory"
  ELSE IF ~Accepts(o.type, d.type) THEN "type"
  ELSE IF ~AcceptsProps(o.props, d.props) THEN "props"
  ELSE IF ~Accepts(o.children, d.children) THEN "children"
  ELSE IF ~(d.dirs.t = "any" \/ AcceptsSeq(o.dirs, d.dirs.xs)) THEN "dirs"
  ELSE ""
=============================================================================
