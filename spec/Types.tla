--------------------------------- MODULE Types ---------------------------------
(***************************************************************************)
(* C16 / C17 / C19 — a structural semantics of the TypeScript subset the    *)
(* resolveType properties quantify over: which props a type declares (and   *)
(* their requiredness), which JavaScript constructors its values have, and  *)
(* which events an emits type declares.  Independent of the                 *)
(* implementation's traversal-order registry: declarations are an           *)
(* environment (name -> declarations), wherever they are written.           *)
(***************************************************************************)
EXTENDS Naturals, Sequences, FiniteSets, TLC

(* ---- type expressions ---- *)
Kw(name)         == [k |-> "kw", name |-> name]
LitT(kind, text) == [k |-> "lit", kind |-> kind, text |-> text]      \* kind: str | num | bool | tpl | bigint
LitN(n)          == [k |-> "lit", kind |-> "num", text |-> ToString(n), n |-> n]
FnT              == [k |-> "fn"]                                       \* () => void
FnP(p)           == [k |-> "fn", param |-> p]                          \* (e: p, ...args) => void
CtorT            == [k |-> "ctor"]                                     \* new () => object
ArrT(t)          == [k |-> "arr", of |-> t]
TupleT(ts)       == [k |-> "tuple", items |-> ts]
TypeLit(ms)      == [k |-> "typelit", members |-> ms]
Ref(name, args)  == [k |-> "ref", name |-> name, args |-> args]
UnionT(ts)       == [k |-> "union", types |-> ts]
InterT(ts)       == [k |-> "inter", types |-> ts]
ParenT(t)        == [k |-> "paren", t |-> t]
IdxT(obj, index) == [k |-> "idx", obj |-> obj, index |-> index]
OpT(op, t)       == [k |-> "op", op |-> op, t |-> t]                  \* keyof T / readonly T
QueryT(name)     == [k |-> "query", name |-> name]                    \* typeof name
CondT            == [k |-> "cond"]                                     \* X extends Y ? A : B
QRefT(ns, name)  == [k |-> "qref", ns |-> ns, name |-> name]          \* NS.Name
MappedT          == [k |-> "mapped"]                                   \* { [K in 'a' | 'b']: string }

(* ---- members of object types ---- *)
Prop(key, keykind, optional, t) == [k |-> "prop", key |-> key, keykind |-> keykind, optional |-> optional, type |-> t]
Method(key, optional)           == [k |-> "method", key |-> key, keykind |-> "ident", optional |-> optional, type |-> FnT]
Getter(key, t)                  == [k |-> "getter", key |-> key, keykind |-> "ident", optional |-> FALSE, type |-> t]
CallSig(p)                      == [k |-> "call", key |-> "", keykind |-> "none", optional |-> FALSE, type |-> FnP(p)]

(* ---- declarations ---- *)
Alias(name, t)                 == [k |-> "alias", name |-> name, type |-> t]
Interface(name, extends, ms)   == [k |-> "interface", name |-> name, extends |-> extends, extendsT |-> <<>>, members |-> ms]
InterfaceX(name, extT, ms)     == [k |-> "interface", name |-> name, extends |-> <<>>, extendsT |-> extT, members |-> ms]   \* extends type references with arguments: `extends Omit<B, 'x'>`

EnumDecl(name, kinds)          == [k |-> "enum", name |-> name, kinds |-> kinds]       \* kinds: per member "str" (= 'lit') or "num" (= 1 / no initialiser)
ImportT(name)                  == [k |-> "import", name |-> name]                      \* import type { name } from './types'
TypeParamD(name)               == [k |-> "tparam", name |-> name]                      \* <name extends string>(props: …) => …  (a type parameter of the setup function)
ClassD(name)                   == [k |-> "class", name |-> name]                       \* class name {}  (its instances are objects)

(* env: sequence of declarations (an interface may be declared several times: merging) *)
AliasOf(env, n)      == LET idx == {i \in 1..Len(env) : env[i].k = "alias" /\ env[i].name = n} IN
                        IF idx = {} THEN [k |-> "none"] ELSE env[CHOOSE i \in idx : TRUE]
InterfacesOf(env, n) == SelectSeq(env, LAMBDA d : d.k = "interface" /\ d.name = n)
EnumOf(env, n)       == LET idx == {i \in 1..Len(env) : env[i].k = "enum" /\ env[i].name = n} IN
                        IF idx = {} THEN [k |-> "none"] ELSE env[CHOOSE i \in idx : TRUE]
Imported(env, n)     == \E i \in 1..Len(env) : env[i].k = "import" /\ env[i].name = n
Declared(env, n)     == AliasOf(env, n).k # "none" \/ InterfacesOf(env, n) # <<>>

RECURSIVE ConcatAll(_)
ConcatAll(ss) == IF ss = <<>> THEN <<>> ELSE Head(ss) \o ConcatAll(Tail(ss))
SeqSet(xs) == {xs[i] : i \in 1..Len(xs)}

(* string keys named by a type: literal, union of literals, alias of those *)
RECURSIVE KeysOf(_, _)
KeysOf(t, env) ==
  CASE t.k = "lit" /\ t.kind = "str" -> {t.text}
    [] t.k = "union" -> UNION {KeysOf(t.types[i], env) : i \in 1..Len(t.types)}
    [] t.k = "paren" -> KeysOf(t.t, env)
    [] t.k = "ref" /\ AliasOf(env, t.name).k # "none" -> KeysOf(AliasOf(env, t.name).type, env)
    [] OTHER -> {}

(* ---- indexed access ---- *)
RECURSIVE MembersOf(_, _), IndexResolve(_, _, _)
IndexResolve(obj, index, env) ==      \* the type T[K] denotes, as a type expression
  CASE obj.k = "arr"   -> obj.of
    [] obj.k = "tuple" -> IF index.k = "lit" /\ index.kind = "num" THEN obj.items[index.n + 1] ELSE UnionT(obj.items)
    [] obj.k = "ref" /\ obj.name = "Array" -> obj.args[1]
    [] obj.k = "paren" -> IndexResolve(obj.t, index, env)
    [] OTHER ->
         LET ms  == MembersOf(obj, env)
             sel == IF index.k = "kw" /\ index.name = "string"
                    THEN SelectSeq(ms, LAMBDA m : m.k \in {"prop", "getter", "method"})
                    ELSE SelectSeq(ms, LAMBDA m : m.k \in {"prop", "getter", "method"} /\ m.key \in KeysOf(index, env))
             ts  == [i \in 1..Len(sel) |-> sel[i].type]
         IN IF Len(ts) = 1 THEN ts[1] ELSE UnionT(ts)

(* ---- members (flattened) of an object-like type ---- *)
WithOptional(ms, b) == [i \in 1..Len(ms) |-> IF ms[i].k \in {"prop", "method"} THEN [ms[i] EXCEPT !.optional = b] ELSE ms[i]]
MembersOf(t, env) ==
  CASE t.k = "typelit" -> t.members
    [] t.k = "paren"   -> MembersOf(t.t, env)
    [] t.k = "inter"   -> ConcatAll([i \in 1..Len(t.types) |-> MembersOf(t.types[i], env)])
    [] t.k = "idx"     -> MembersOf(IndexResolve(t.obj, t.index, env), env)
    [] t.k = "ref" ->
         IF AliasOf(env, t.name).k # "none" THEN MembersOf(AliasOf(env, t.name).type, env)
         ELSE IF InterfacesOf(env, t.name) # <<>> THEN
              LET is == InterfacesOf(env, t.name) IN
              ConcatAll([i \in 1..Len(is) |-> is[i].members
                            \o ConcatAll([j \in 1..Len(is[i].extends) |-> MembersOf(Ref(is[i].extends[j], <<>>), env)])
                            \o ConcatAll([j \in 1..Len(is[i].extendsT) |-> MembersOf(is[i].extendsT[j], env)])])
         ELSE CASE t.name = "Partial"  -> WithOptional(MembersOf(t.args[1], env), TRUE)
                [] t.name = "Required" -> WithOptional(MembersOf(t.args[1], env), FALSE)
                [] t.name = "Pick" -> SelectSeq(MembersOf(t.args[1], env), LAMBDA m : m.k # "call" /\ m.key \in KeysOf(t.args[2], env))
                [] t.name = "Omit" -> SelectSeq(MembersOf(t.args[1], env), LAMBDA m : m.k = "call" \/ m.key \notin KeysOf(t.args[2], env))
                [] OTHER -> <<[k |-> "unresolvable", key |-> t.name, keykind |-> "none", optional |-> FALSE, type |-> FnT]>>
    [] OTHER -> <<[k |-> "unresolvable", key |-> "", keykind |-> "none", optional |-> FALSE, type |-> FnT]>>

Resolvable(t, env) == \A i \in 1..Len(MembersOf(t, env)) : MembersOf(t, env)[i].k # "unresolvable"

(* ---- C16: the declared props and their requiredness ---- *)
PropMembers(t, env) == SelectSeq(MembersOf(t, env), LAMBDA m : m.k \in {"prop", "method", "getter"})
PropKeys(t, env) == {PropMembers(t, env)[i].key : i \in 1..Len(PropMembers(t, env))}
RequiredOf(t, env, key) ==      \* TRUE / FALSE, or "either" when parts disagree (the property is silent)
  LET ms == SelectSeq(PropMembers(t, env), LAMBDA m : m.key = key)
      os == {ms[i].optional : i \in 1..Len(ms)} IN
  IF os = {TRUE} THEN "optional" ELSE IF os = {FALSE} THEN "required" ELSE "either"

(* ---- C17: the JavaScript constructors of a type's values, in declaration order ---- *)
BuiltinClasses == {"Array", "Function", "Object", "Set", "Map", "WeakSet", "WeakMap", "Date", "Promise", "Error", "RegExp"}
RECURSIVE CtorsD(_, _, _)
Dedup(xs) == LET RECURSIVE D(_, _)
                 D(i, acc) == IF i > Len(xs) THEN acc ELSE D(i + 1, IF xs[i] \in SeqSet(acc) THEN acc ELSE Append(acc, xs[i]))
             IN D(1, <<>>)
ObjectLikeCtors(ms) ==
  Dedup([i \in 1..Len(ms) |-> IF ms[i].k = "call" THEN "Function" ELSE "Object"])
CtorsD(t, env, D) ==         \* sequence of constructor names; "null" = the null value; "ANY" = no check possible
  CASE t.k = "kw" ->
         (CASE t.name = "string"  -> <<"String">>  [] t.name = "number" -> <<"Number">> [] t.name = "boolean" -> <<"Boolean">>
            [] t.name = "object"  -> <<"Object">>  [] t.name = "bigint" -> <<"BigInt">> [] t.name = "symbol"  -> <<"Symbol">>
            [] t.name = "null"    -> <<"null">>    [] t.name \in {"any", "unknown"} -> <<"ANY">>
            [] OTHER -> <<"null">>)
    [] t.k = "lit" ->
         (CASE t.kind \in {"str", "tpl"} -> <<"String">> [] t.kind = "num" -> <<"Number">> [] t.kind = "bool" -> <<"Boolean">>
            \* Deviation (known finding): a bigint literal type is given the constructor Number
            [] t.kind = "bigint" -> IF "Dev_BigIntLiteralIsNumber" \in D THEN <<"Number">> ELSE <<"BigInt">>)
    [] t.k \in {"fn", "ctor"} -> <<"Function">>
    [] t.k \in {"arr", "tuple"} -> <<"Array">>
    [] t.k = "typelit" -> IF t.members = <<>> THEN <<"Object">> ELSE ObjectLikeCtors(t.members)
    [] t.k = "paren" -> CtorsD(t.t, env, D)
    [] t.k \in {"union", "inter"} -> Dedup(ConcatAll([i \in 1..Len(t.types) |-> CtorsD(t.types[i], env, D)]))
    [] t.k = "idx" -> CtorsD(IndexResolve(t.obj, t.index, env), env, D)
    [] t.k = "op" -> IF t.op = "readonly" THEN CtorsD(t.t, env, D) ELSE <<"ANY">>        \* keyof: strings / numbers / symbols - not followed
    [] t.k \in {"query", "cond", "qref"} -> <<"ANY">>                                    \* nothing is known about their values here
    [] t.k = "mapped" -> <<"Object">>
    [] t.k = "ref" ->
         IF AliasOf(env, t.name).k # "none" THEN CtorsD(AliasOf(env, t.name).type, env, D)
         ELSE IF InterfacesOf(env, t.name) # <<>> THEN
              LET ms == MembersOf(t, env) IN IF ms = <<>> THEN <<"Object">> ELSE ObjectLikeCtors(ms)
         ELSE IF Imported(env, t.name) THEN <<"ANY">>          \* also when it is spelled like a built-in (import type { Map } from 'leaflet')
         ELSE IF EnumOf(env, t.name).k # "none" THEN      \* the values of an enum are the strings / numbers of its members
              LET ks == EnumOf(env, t.name).kinds IN
              IF ks = <<>> THEN <<"Number">> ELSE Dedup([i \in 1..Len(ks) |-> IF ks[i] = "str" THEN "String" ELSE "Number"])
         ELSE IF \E i \in 1..Len(env) : env[i].k = "class" /\ env[i].name = t.name THEN <<"Object">>
         ELSE CASE t.name \in BuiltinClasses -> <<t.name>>
                [] t.name \in {"Partial", "Required", "Readonly", "Record", "Pick", "Omit", "InstanceType"} -> <<"Object">>
                [] t.name \in {"Uppercase", "Lowercase", "Capitalize", "Uncapitalize"} -> <<"String">>
                [] t.name \in {"Parameters", "ConstructorParameters"} -> <<"Array">>
                [] t.name = "NonNullable" -> SelectSeq(CtorsD(t.args[1], env, D), LAMBDA c : c # "null")
                \* a type imported from another module, a global or utility type outside the table: nothing is known about
                \* its values - only "no check" accepts them all
                [] OTHER -> <<"ANY">>
Ctors(t, env) == CtorsD(t, env, {})

(* ---- the filtering utilities Extract<T, U> / Exclude<T, U> (at the top of a prop type) ---- *)
(* Their values are the values of those union members of T that are (not) assignable to U; the emitted `type` *)
(* must accept every such value and may only name constructors of the parts.  Assignability is decided on the *)
(* constructor level, with Vue's rule that `Object` accepts every non-function object.                        *)
ObjectKinds == BuiltinClasses \ {"Function"}
AcceptsCtor(got, c) == c \in got \/ "ANY" \in got \/ ("Object" \in got /\ c \in ObjectKinds)
UnionMembers(t) == IF t.k = "union" THEN t.types ELSE <<t>>
IsFilter(t) == t.k = "ref" /\ t.name \in {"Extract", "Exclude"} /\ Len(t.args) = 2
FilterInhab(t, env, D) ==
  LET ms == UnionMembers(t.args[1])
      cu == SeqSet(CtorsD(t.args[2], env, D))
      fits(m) == \A c \in SeqSet(CtorsD(m, env, D)) : AcceptsCtor(cu, c)
      keep == {j \in 1..Len(ms) : IF t.name = "Extract" THEN fits(ms[j]) ELSE ~fits(ms[j])}
  IN UNION {SeqSet(CtorsD(ms[j], env, D)) : j \in keep}
FilterParts(t, env, D) ==
  SeqSet(CtorsD(t.args[1], env, D)) \cup (IF t.name = "Extract" THEN SeqSet(CtorsD(t.args[2], env, D)) ELSE {})
NoCheck(t, env) == "ANY" \in SeqSet(Ctors(t, env))

(* ---- C19: declared emitted events ---- *)
RECURSIVE EmitsOf(_, _)
EmitsOfMembers(ms, env) ==
  UNION {IF ms[i].k = "call" THEN KeysOf(ms[i].type.param, env) ELSE IF ms[i].k \in {"prop", "method"} THEN {ms[i].key} ELSE {}
         : i \in 1..Len(ms)}
EmitsOf(t, env) ==
  CASE t.k = "fn" -> IF "param" \in DOMAIN t THEN KeysOf(t.param, env) ELSE {}
    [] t.k \in {"union", "inter"} -> UNION {EmitsOf(t.types[i], env) : i \in 1..Len(t.types)}
    [] t.k = "paren" -> EmitsOf(t.t, env)
    [] t.k = "ref" /\ AliasOf(env, t.name).k # "none" -> EmitsOf(AliasOf(env, t.name).type, env)
    [] OTHER -> EmitsOfMembers(MembersOf(t, env), env)
=============================================================================
