------------------------------ MODULE TypeResolve ------------------------------
(***************************************************************************)
(* The type-resolution machine of resolve_type.rs as an explicit stack      *)
(* machine: resolve_type_elements is a depth-first walk over the graph of   *)
(* type declarations (aliases, intersections) with no visited set; what     *)
(* makes it terminate on self- and mutually-referential declarations is the *)
(* depth bound (enter_type_resolution): when the recursion depth reaches    *)
(* MaxDepth an error is reported and every further resolution of this       *)
(* annotation returns at once ("poisoned").                                 *)
(*                                                                          *)
(*   Termination  ==  <>done        (liveness, under weak fairness of Next) *)
(*   ReportsCycles == done => (poisoned <=> a cycle is reachable from Root) *)
(*                    (in TypeResolveProps.tla, which needs RECURSIVE)      *)
(*                                                                          *)
(* With Bounded = FALSE (the code before the repair — deviation             *)
(* Dev_UnboundedTypeRecursion) TLC finds the lasso: `type P = P`.           *)
(***************************************************************************)
EXTENDS Naturals, Sequences, FiniteSets, TLC

CONSTANTS Names,        \* declared type names; the annotation refers to Root
          Root,
          MaxDepth,     \* MAX_TYPE_RESOLUTION_DEPTH
          Bounded,      \* TRUE: the repaired code; FALSE: no depth bound
          StackLimit    \* how deep the native stack can go before the process aborts

(* type expressions *)
Leaf      == [k |-> "leaf"]                       \* an object type literal (declares one prop, named after its alias)
Ref(n)    == [k |-> "ref", n |-> n]
Inter(a, b) == [k |-> "inter", a |-> a, b |-> b]  \* A & B (both references)
Inters == UNION {{Inter(Ref(a), Ref(b)) : b \in Names} : a \in Names}     \* (one bound variable per constructor: the proof system's back ends need it)
Bodies == {Leaf} \cup {Ref(n) : n \in Names} \cup Inters

VARIABLES decl,      \* Names -> Bodies : the declarations of the module (the input)
          stack,     \* the call stack of resolve_type_elements: each frame is the sequence of type expressions still to resolve
          poisoned,  \* the depth bound was hit: an error has been reported, everything else returns at once
          visited,   \* sequence of names looked up (the `resolve_ref` hook events) — history variable
          done
vars == <<decl, stack, poisoned, visited, done>>
view == <<decl, stack, poisoned, done>>

Init ==
  /\ decl \in [Names -> Bodies]
  /\ stack = << <<Ref(Root)>> >>
  /\ poisoned = FALSE /\ visited = <<>> /\ done = FALSE

Top == stack[Len(stack)]
Pop == SubSeq(stack, 1, Len(stack) - 1)

Children(t) ==     \* what resolving t recurses into
  CASE t.k = "leaf"  -> <<>>
    [] t.k = "ref"   -> <<decl[t.n]>>
    [] t.k = "inter" -> <<t.a, t.b>>

(* return from a call whose work is finished *)
Return ==
  /\ ~done /\ stack # <<>> /\ Top = <<>>
  /\ stack' = Pop
  /\ UNCHANGED <<decl, poisoned, visited, done>>

(* the caller takes the next type expression and calls resolve_type_elements on it *)
Call ==
  /\ ~done /\ stack # <<>> /\ Top # <<>>
  /\ LET t == Head(Top)
         rest == [stack EXCEPT ![Len(stack)] = Tail(Top)]
     IN IF poisoned THEN                                   \* enter_type_resolution returns false at once
             /\ stack' = rest /\ UNCHANGED <<poisoned, visited>>
        ELSE IF Bounded /\ Len(stack) > MaxDepth THEN      \* depth bound reached: report, poison
             /\ poisoned' = TRUE /\ stack' = rest /\ UNCHANGED visited
        ELSE /\ stack' = Append(rest, Children(t))
             /\ visited' = IF t.k = "ref" THEN Append(visited, t.n) ELSE visited
             /\ UNCHANGED poisoned
  /\ UNCHANGED <<decl, done>>

Finish ==
  /\ ~done /\ stack = <<>>
  /\ done' = TRUE
  /\ UNCHANGED <<decl, stack, poisoned, visited>>

Next == Return \/ Call \/ Finish
Spec == Init /\ [][Next]_vars /\ WF_vars(Next)

(* ---- properties ---- *)
Termination == <>done

DepthBounded  == Bounded => Len(stack) <= MaxDepth + 1
NoOverflow    == Len(stack) <= StackLimit        \* violated (only) without the depth bound: the stack overflow of `type P = P`
=============================================================================
