----------------------------- MODULE SlotFlagsOps -----------------------------
(***************************************************************************)
(* The slot-flag stack of the visitor (optimize = true) as a state machine. *)
(* transform_jsx_element / transform_jsx_fragment push `Stable`; a child     *)
(* that is an identifier bound in the file fills the WHOLE stack with        *)
(* `Dynamic` (that slot and every enclosing one reached by direct JSX        *)
(* nesting); transform_children pops and that flag becomes the `_` entry of  *)
(* the slots object.                                                         *)
(*                                                                          *)
(*   StackBalanced — the depth after the pop of an element equals the depth *)
(*                   before its push; the stack is empty when the tree is    *)
(*                   done (C12: optimize adds nothing but hints);            *)
(*   FlagSound     — the flag popped for an element is Dynamic iff a bound   *)
(*                   identifier child occurs in it or below it (C13).        *)
(*                                                                          *)
(* Bound to the code by the hooks enter_element / enter_fragment /           *)
(* fill_dynamic / exit_children: PredictSlotFlags(el, o) is the event sequence the real  *)
(* traversal must produce.                                                   *)
(***************************************************************************)
EXTENDS Hints

STABLE == 1
DYNAMIC == 2

(* ---- linearisation of one JSX tree into stack operations (post-order of the real traversal) ---- *)
RECURSIVE OpsOf(_, _), OpsOfKids(_, _, _)
OpsOfKids(cs, o, i) ==
  IF i > Len(cs) THEN <<>>
  ELSE (CASE cs[i].k \in {"expr", "spread"} /\ Peel(cs[i].e).k = "ident" /\ Peel(cs[i].e).bound -> <<[op |-> "fill"]>>
          [] cs[i].k = "elem" -> OpsOf(cs[i].el, o)
          [] OTHER -> <<>>) \o OpsOfKids(cs, o, i + 1)
OpsOf(el, o) ==
  <<[op |-> "push", frag |-> el.tag.k = "frag", component |-> IsComponentHost(el.tag, o)]>>
  \o OpsOfKids(el.children, o, 1)
  \o <<[op |-> "pop", component |-> IsComponentHost(el.tag, o), n |-> Len(SelectSeq(Coalesce(el.children), Contributes)),
        dyn |-> BoundIdentBelow(el.children)]>>

(* what the hooks of the real traversal of this tree must be *)
RECURSIVE Run(_, _, _, _, _)
Run(os, o, i, st, evs) ==
  IF i > Len(os) THEN evs
  ELSE LET x == os[i] IN
       CASE x.op = "push" ->
              LET st2 == IF o.optimize THEN Append(st, STABLE) ELSE st IN
              Run(os, o, i + 1, st2, Append(evs, IF x.frag THEN [ev |-> "enter_fragment", depth |-> Len(st2)]
                                                 ELSE [ev |-> "enter_element", depth |-> Len(st2), component |-> x.component]))
         [] x.op = "fill" ->
              IF o.optimize THEN Run(os, o, i + 1, [j \in 1..Len(st) |-> DYNAMIC], Append(evs, [ev |-> "fill_dynamic", depth |-> Len(st)]))
              ELSE Run(os, o, i + 1, st, evs)
         [] x.op = "pop" ->
              LET flag == IF o.optimize /\ st # <<>> THEN st[Len(st)] ELSE STABLE
                  st2 == IF o.optimize /\ st # <<>> THEN SubSeq(st, 1, Len(st) - 1) ELSE st IN
              Run(os, o, i + 1, st2, Append(evs, [ev |-> "exit_children", depth |-> Len(st2), flag |-> flag, component |-> x.component, n |-> x.n]))
PredictSlotFlags(el, o) == Run(OpsOf(el, o), o, 1, <<>>, <<>>)
=============================================================================
