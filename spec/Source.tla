-------------------------------- MODULE Source --------------------------------
(***************************************************************************)
(* Abstract syntax of the Vue-JSX/TSX modules the checks quantify over,    *)
(* and the (side-effect free) evaluation of the embedded expressions in    *)
(* the probe environment.  The abstract syntax is fully concrete about     *)
(* names: harness/py/render.py is a dumb pretty-printer of these records.  *)
(***************************************************************************)
EXTENDS Values, Text

(* ---- expressions (every leaf is observable at runtime through its probe) ---- *)
Ident(name, bound, rv)   == [k |-> "ident", name |-> name, bound |-> bound, rv |-> rv]
Call(name, rv)           == [k |-> "call", name |-> name, rv |-> rv]
Member(obj, prop, rv)    == [k |-> "member", obj |-> obj, prop |-> prop, rv |-> rv]
Lit(v)                   == [k |-> "lit", v |-> v]
Undefined                == [k |-> "undefined"]
ObjLit(es)               == [k |-> "objlit", es |-> es]       \* es: << <<key, Expr>> >>
ObjLitC(ces)             == [k |-> "objlitc", ces |-> ces]    \* computed keys { [keyexpr]: value }: ces: << <<keyexpr, key-as-string, Expr>> >>
ArrLit(xs)               == [k |-> "arrlit", xs |-> xs]
Arrow(body)              == [k |-> "arrow", body |-> body]    \* () => body
FnExpr(body)             == [k |-> "fnexpr", body |-> body]   \* function () { return body }
Wrap(form, e)            == [k |-> "wrap", form |-> form, e |-> e]
   \* value-preserving syntactic categories: "paren" (e), "cond" (true ? e : 0), "seq" (0, e),
   \* "or" (e || 0, for truthy e), "nullish" (e ?? 0), "tpl" (`${e}`, for strings)
   \* TypeScript-only (modules rendered as tsx): "tsnonnull" (e!), "tsas" (e as any) - not transparent for the child-shape rules

RECURSIVE Eval(_), EvalEntries(_, _, _), EvalCEntries(_, _, _), EvalItems(_)
Eval(e) ==
  CASE e.k \in {"ident", "call", "member", "index"} -> e.rv
    [] e.k = "lit"       -> e.v
    [] e.k = "undefined" -> Undef
    [] e.k = "objlit"    -> Obj(EvalEntries(e.es, 1, <<>>))
    [] e.k = "objlitc"   -> Obj(EvalCEntries(e.ces, 1, <<>>))
    [] e.k = "arrlit"    -> Arr(EvalItems(e.xs))
    [] e.k \in {"arrow", "fnexpr"} -> AnonFn
    [] e.k = "wrap"      -> Eval(e.e)
EvalEntries(es, i, acc) ==
  IF i > Len(es) THEN acc ELSE EvalEntries(es, i + 1, ObjSet(acc, es[i][1], Eval(es[i][2])))
EvalCEntries(ces, i, acc) ==
  IF i > Len(ces) THEN acc ELSE EvalCEntries(ces, i + 1, ObjSet(acc, ces[i][2], Eval(ces[i][3])))
EvalItems(xs) == [i \in 1..Len(xs) |-> Eval(xs[i])]

(* parentheses are transparent: `{(x)}` is the child `x` *)
RECURSIVE Peel(_)
Peel(e) == IF e.k = "wrap" /\ e.form = "paren" THEN Peel(e.e) ELSE e

(* is the expression one of the "trivial" forms C11 exempts (bare identifier / literal)? *)
IsTrivial(e) == e.k \in {"ident", "lit", "undefined"}

(* the transform's notion of a constant attribute value (no patch flag needed) is NOT used by   *)
(* the oracle; what the oracle needs is whether a value can differ between renders:             *)
RECURSIVE CanDiffer(_)
CanDiffer(e) ==
  CASE e.k \in {"lit", "undefined"} -> FALSE
    [] e.k = "arrlit" -> \E i \in 1..Len(e.xs) : CanDiffer(e.xs[i])
    [] e.k = "objlit" -> \E i \in 1..Len(e.es) : CanDiffer(e.es[i][2])
    [] e.k = "objlitc" -> \E i \in 1..Len(e.ces) : CanDiffer(e.ces[i][1]) \/ CanDiffer(e.ces[i][3])   \* a key that can differ, too
    [] OTHER -> TRUE

(* ---- attribute values, attributes, children, tags, elements ---- *)
AvNone      == [k |-> "none"]
AvStr(syms) == [k |-> "str", syms |-> syms]         \* written "…" ; syms as in Text!SymCp
AvExpr(e)   == [k |-> "expr", e |-> e]
AvElem(el)  == [k |-> "elem", el |-> el]            \* attr=<el/> (a JSX element as the value, without braces)

Plain(name, val)    == [k |-> "plain", name |-> name, val |-> val]
NsAttr(ns, name, v) == [k |-> "ns", ns |-> ns, name |-> name, val |-> v]
Spread(e)           == [k |-> "spread", e |-> e]

(* directive value shapes: AvNone | AvStr | AvExpr | the array forms [v], [v,arg], [v,[mods]], [v,arg,[mods]] *)
AvArr(v, hasArg, arg, hasMods, mods) ==
  [k |-> "arr", v |-> v, hasArg |-> hasArg, arg |-> arg, hasMods |-> hasMods, mods |-> mods]

(* v-name / vName directive: structured spelling (the renderer joins the words) *)
Dir(style, words, arg, mods, val) ==
  [k |-> "dir", style |-> style, words |-> words, arg |-> arg, mods |-> mods, val |-> val]
VHtml(val) == [k |-> "vhtml", val |-> val]
VText(val) == [k |-> "vtext", val |-> val]
VSlots(e)  == [k |-> "vslots", e |-> e]

(* v-model: target expression, argument form, modifier form *)
VModel(target, argform, arg, argexpr, modform, mods) ==
  [k |-> "vmodel", target |-> target, argform |-> argform, arg |-> arg, argexpr |-> argexpr,
   modform |-> modform, mods |-> mods]
VModels(list) == [k |-> "vmodels", list |-> list]
Index(obj, prop, rv) == [k |-> "index", obj |-> obj, prop |-> prop, rv |-> rv]

Capitalize(w) ==
  CASE w = "foo" -> "Foo" [] w = "bar" -> "Bar" [] w = "show" -> "Show" [] w = "model" -> "Model"
    [] w = "html" -> "Html" [] w = "text" -> "Text" [] w = "slots" -> "Slots" [] w = "x" -> "X"
    [] OTHER -> w

ChText(syms) == [k |-> "text", syms |-> syms]
ChExpr(e)    == [k |-> "expr", e |-> e]
ChEmpty      == [k |-> "empty"]
ChComment    == [k |-> "comment"]
ChSpread(e)  == [k |-> "spread", e |-> e]
ChElem(el)   == [k |-> "elem", el |-> el]

TagHtml(name)            == [k |-> "html", name |-> name]
TagCustom(name)          == [k |-> "custom", name |-> name, bound |-> FALSE, rv |-> Undef]
TagCustomBound(name, rv) == [k |-> "custom", name |-> name, bound |-> TRUE, rv |-> rv]     \* a pattern-matching name that is also bound
TagComp(name, bound, rv) == [k |-> "comp", name |-> name, bound |-> bound, rv |-> rv]
TagMember(obj, prop, rv) == [k |-> "member", obj |-> obj, prop |-> prop, rv |-> rv]
TagThis(prop, rv)        == [k |-> "this", prop |-> prop, rv |-> rv]
TagFragmentName          == [k |-> "Fragment"]
TagKeepAlive             == [k |-> "KeepAlive"]
TagFrag                  == [k |-> "frag"]          \* <>…</>

Elem(tag, attrs, children) == [tag |-> tag, attrs |-> attrs, children |-> children]

(* ---- options ---- *)
DefaultOpts == [transformOn |-> FALSE, optimize |-> FALSE, mergeProps |-> TRUE,
                enableObjectSlots |-> TRUE, resolveType |-> FALSE,
                patterns |-> <<>>, pragma |-> ""]

PatternMatches(p, name) ==          \* the regex alphabet in use, by table
  CASE p = "^i-"  -> name \in {"i-foo", "i-bar"}
    [] p = "^x-"  -> name \in {"x-foo"}
    [] p = "foo$" -> name \in {"i-foo", "x-foo"}
    [] p = "^Ui" -> name \in {"UiBox"}
    [] p = "(?i)^ion-" -> name \in {"ion-x", "ION-y", "Ion-z"}      \* the inline flag concerns this pattern only
    [] p = "^widget$" -> name \in {"widget"}
    [] OTHER -> FALSE
AnyPatternMatches(o, name) == \E i \in 1..Len(o.patterns) : PatternMatches(o.patterns[i], name)

(* ---- bounded sequences ---- *)
SeqsUpTo(S, n) == UNION {[1..m -> S] : m \in 0..n}
SeqsFromTo(S, lo, hi) == UNION {[1..m -> S] : m \in lo..hi}
=============================================================================
