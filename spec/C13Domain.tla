------------------------------ MODULE C13Domain ------------------------------
(***************************************************************************)
(* C13 — patch flags / dynamic props / slot flags.  Attribute sequences    *)
(* over {value kind} x {prop name} plus the special kinds, on an element   *)
(* and on a component; nested component trees for slot flags.              *)
(***************************************************************************)
EXTENDS AttrsFold, SlotFlagsOps, SequencesExt

CONSTANTS MaxAttrs, Names3, TreeDepth, WithInput

S(cp) == Str(cp)
Names == {"class", "style", "key", "ref", "onClick", "onFoo", "foo", "id"}
ValueKinds == {"str", "none", "num", "constarr", "constobj", "dyn", "call", "undef", "dynobj"}

ValOf(kind, name) ==
  CASE kind = "str"      -> AvStr(<<"a">>)
    [] kind = "none"     -> AvNone
    [] kind = "num"      -> AvExpr(Lit(Num(1)))
    [] kind = "undef"    -> AvExpr(Undefined)
    [] kind = "constarr" -> AvExpr(ArrLit(<<Lit(S(<<97>>)), Lit(Num(2))>>))
    [] kind = "constobj" -> AvExpr(ObjLit(<< <<"a", Lit(Bool(TRUE))>> >>))
    [] kind = "dynobj"   -> AvExpr(ObjLit(<< <<"a", Ident("dz", FALSE, Bool(TRUE))>> >>))
    \* constant-ness analysis of composite literals: computed keys, nesting
    [] kind = "ckdynkey" -> AvExpr(ObjLitC(<< <<Ident("kd", FALSE, StrS(<<97>>, "a")), "a", Lit(Bool(TRUE))>> >>))      \* { [kd]: true }
    [] kind = "cklitkey" -> AvExpr(ObjLitC(<< <<Lit(StrS(<<97>>, "a")), "a", Ident("dz", FALSE, Bool(TRUE))>> >>))      \* { ["a"]: dz }
    [] kind = "ckconst"  -> AvExpr(ObjLitC(<< <<Lit(StrS(<<97>>, "a")), "a", Lit(Bool(TRUE))>> >>))                       \* { ["a"]: true }
    [] kind = "arrdyn"   -> AvExpr(ArrLit(<<Lit(S(<<97>>)), Ident("dz", FALSE, Bool(TRUE))>>))                            \* ["a", dz]
    [] kind = "nestdyn"  -> AvExpr(ObjLit(<< <<"a", ArrLit(<<ObjLit(<< <<"b", Ident("dz", FALSE, Bool(TRUE))>> >>)>>)>> >>))   \* { a: [{ b: dz }] }
    [] kind = "dyn"      -> AvExpr(Ident("d_" \o name, FALSE, IF name \in {"onClick", "onFoo"} THEN Fn("hd") ELSE S(<<100>>)))
    [] kind = "call"     -> AvExpr(Call("c_" \o name, IF name \in {"onClick", "onFoo"} THEN Fn("hc") ELSE S(<<101>>)))

ExtraKinds == {"ckdynkey", "cklitkey", "ckconst", "arrdyn", "nestdyn"}
NamedAtoms == {Plain(n, ValOf(k, n)) : n \in Names, k \in ValueKinds}
              \cup {Plain(n, ValOf(k, n)) : n \in {"foo", "style", "class"}, k \in ExtraKinds}
              \cup {NsAttr("xlink", "href", ValOf(k, "href")) : k \in {"str", "dyn"}}
              \cup {NsAttr("onUpdate", "modelValue", ValOf(k, "onClick")) : k \in {"dyn"}}
SpreadLit == Spread(ObjLit(<< <<"b", Ident("dz", FALSE, Bool(TRUE))>>, <<"title", Lit(S(<<116>>))>> >>))     \* {...{ b: dz, title: "t" }}
Specials == {Spread(Ident("sp1", FALSE, Obj(<< <<"id", Num(1)>> >>))), SpreadLit,
             VModel(Ident("m1", TRUE, S(<<49>>)), "computed2", "", Ident("an", FALSE, StrS(<<100, 121, 110>>, "dyn")), "none", <<>>),
             VModel(Ident("m2", TRUE, S(<<50>>)), "none", "", Undefined, "none", <<>>),
             VModel(Ident("m3", TRUE, S(<<51>>)), "colon", "title", Undefined, "suffix", <<"trim">>),
             Dir("kebab", <<"foo">>, "", <<>>, AvExpr(Ident("dv", FALSE, Opq("vdv")))),
             Dir("kebab", <<"show">>, "", <<>>, AvExpr(Ident("sv", FALSE, Bool(TRUE)))),
             VHtml(AvExpr(Ident("hh", FALSE, S(<<104>>)))), VText(AvStr(<<"a">>)), VText(AvExpr(Call("tt", S(<<116>>)))),
             Plain("on", AvExpr(ObjLit(<< <<"click", Ident("h2", FALSE, Fn("h2"))>> >>)))}
Atoms == NamedAtoms \cup Specials

KeyOf(a) == IF a.k = "plain" THEN a.name ELSE IF a.k = "ns" THEN a.ns \o ":" \o a.name ELSE a.k
NoRepeat(as) == \A i, j \in 1..Len(as) : i < j /\ KeyOf(as[i]) = KeyOf(as[j]) => KeyOf(as[i]) \in {"class", "style", "onClick", "onFoo", "spread", "dir"}

Atoms3 == {a \in Atoms : KeyOf(a) \in Names3}
AttrSeqs == {as \in SeqsUpTo(Atoms, MaxAttrs) : NoRepeat(as)}
            \cup {as \in [1..3 -> Atoms3] : NoRepeat(as)}

Hosts == {TagHtml("div"), TagComp("Foo", TRUE, Opq("vFoo"))} \cup (IF WithInput THEN {TagHtml("input")} ELSE {})
Opt(ton, opt) == [DefaultOpts EXCEPT !.transformOn = ton, !.optimize = opt]

Spreads == {a \in Specials : a.k = "spread"}
SpreadSeqs == {x \in {<<sp>> : sp \in Spreads} \cup {<<sp, a>> : sp \in Spreads, a \in Atoms} \cup {<<a, sp>> : sp \in Spreads, a \in Atoms} : NoRepeat(x)}
AttrCases == {[kind |-> "attrs", elem |-> Elem(h, as, <<>>), opts |-> Opt(ton, TRUE)] :
                h \in Hosts, as \in AttrSeqs, ton \in BOOLEAN}
(* with mergeProps off a spread of an object literal is inlined into the props object: still "spread" *)
(* (kept apart from AttrCases: a union of two large sets of deep records is slow to normalise in TLC)    *)
SpreadOffCases == {[kind |-> "attrs", elem |-> Elem(h, as, <<>>), opts |-> [Opt(ton, TRUE) EXCEPT !.mergeProps = FALSE]] :
                     h \in Hosts, ton \in BOOLEAN, as \in SpreadSeqs}

(* nested component trees: children drawn from bound/unbound identifiers, text, elements, components *)
RECURSIVE Trees(_)
Leafs == {ChExpr(Ident("bi", TRUE, PVNode("pvb"))), ChExpr(Ident("ui", FALSE, PVNode("pvu"))), ChText(<<"a">>),
          ChExpr(Call("gk", PVNode("pvk"))), ChSpread(Ident("bs", TRUE, Arr(<<PVNode("pvs")>>)))}
Trees(d) ==
  IF d = 0 THEN Leafs
  ELSE Leafs \cup {ChElem(Elem(t, <<>>, cs)) : t \in {TagComp("A" \o ToString(d), FALSE, Undef), TagHtml("div"), TagFrag},
                                              cs \in SeqsFromTo(Trees(d - 1), 1, 2)}
(* deep nesting: chains of single-child elements / components / fragments down to a leaf *)
RECURSIVE Chains(_)
LeafsP == Leafs \cup {ChExpr(Wrap("paren", Ident("bi", TRUE, PVNode("pvb"))))}      \* `{(bi)}` is the identifier child bi
Chains(d) == IF d = 0 THEN LeafsP
             ELSE LeafsP \cup {ChElem(Elem(t, <<>>, <<c>>)) : t \in {TagComp("A" \o ToString(d), FALSE, Undef), TagHtml("div"), TagFrag}, c \in Chains(d - 1)}
TreeCases == {[kind |-> "tree", elem |-> Elem(TagComp("Root", FALSE, Undef), <<>>, cs), opts |-> Opt(FALSE, opt)] :
                cs \in SeqsFromTo(Trees(TreeDepth), 1, 2) \cup {<<c>> : c \in Chains(4)}, opt \in BOOLEAN}
=============================================================================
