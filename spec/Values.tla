-------------------------------- MODULE Values --------------------------------
(***************************************************************************)
(* Abstract JavaScript / Vue value algebra and the Vue-3 runtime functions *)
(* the transformed code is allowed to call (DESIGN appendix G).  These     *)
(* definitions are the oracle; harness/runtime/mockvue.mjs implements the  *)
(* same rules in JavaScript and is only the environment the real output    *)
(* runs in.  All values are tagged records so that JSON round-trips and    *)
(* TLC never compares a string with a record.                              *)
(*                                                                         *)
(* Strings whose characters matter (text, class strings) are sequences of  *)
(* code points ("cp"); names that are only compared or concatenated (prop  *)
(* keys, tag names, event names) are TLA+ strings.                         *)
(***************************************************************************)
EXTENDS Naturals, Integers, Sequences, FiniteSets, TLC

Str(cp)     == [t |-> "str", cp |-> cp]
StrS(cp, s) == [t |-> "str", cp |-> cp, s |-> s]  \* a string that is also needed as a TLA+ string (computed keys)
Num(n)      == [t |-> "num", n |-> n]
Bool(b)     == [t |-> "bool", b |-> b]
Null        == [t |-> "null"]
Undef       == [t |-> "undef"]
Opq(id)     == [t |-> "opq", id |-> id]          \* opaque object with identity
PVNode(id)  == [t |-> "pvnode", id |-> id]       \* a vnode produced elsewhere
Fn(id)      == [t |-> "fn", id |-> id]           \* a function with identity
FnR(id, r)  == [t |-> "fn", id |-> id, ret |-> r] \* ... whose calls return r
AnonFn      == [t |-> "fn", id |-> "anon"]       \* a function created by the evaluated code
Arr(xs)     == [t |-> "arr", xs |-> xs]
Obj(es)     == [t |-> "obj", es |-> es]          \* es: sequence of <<key, value>>, insertion order
None        == [t |-> "none"]
Absent      == [t |-> "absent"]
AnyV        == [t |-> "any"]                     \* denotation wildcard
OneOf(alts) == [t |-> "oneof", alts |-> alts]    \* denotation: any of these

IsNullish(v) == v.t \in {"null", "undef"}

Truthy(v) ==
  CASE v.t = "str"   -> v.cp # <<>>
    [] v.t = "num"   -> v.n # 0
    [] v.t = "bool"  -> v.b
    [] v.t \in {"null", "undef"} -> FALSE
    [] OTHER -> TRUE

(* ------------------------------------------------------------------ *)
(* insertion-ordered objects with JavaScript property semantics        *)

RECURSIVE ObjIndex(_, _, _)
ObjIndex(es, k, i) ==          \* position of key k in es at or after i, 0 if absent
  IF i > Len(es) THEN 0 ELSE IF es[i][1] = k THEN i ELSE ObjIndex(es, k, i + 1)

ObjHas(es, k) == ObjIndex(es, k, 1) # 0
ObjGet(es, k) == LET i == ObjIndex(es, k, 1) IN IF i = 0 THEN Undef ELSE es[i][2]
ObjSet(es, k, v) ==            \* an existing key keeps its position
  LET i == ObjIndex(es, k, 1) IN
  IF i = 0 THEN Append(es, <<k, v>>) ELSE [es EXCEPT ![i] = <<k, v>>]

RECURSIVE ObjAssignFrom(_, _, _)
ObjAssignFrom(es, src, i) ==   \* Object.assign / object spread of the entries src[i..]
  IF i > Len(src) THEN es ELSE ObjAssignFrom(ObjSet(es, src[i][1], src[i][2]), src, i + 1)

EntriesOf(v) == IF v.t = "obj" THEN v.es ELSE <<>>   \* `for (k in v)` of a non-object: nothing

(* ------------------------------------------------------------------ *)
(* code-point strings                                                  *)

JsWhitespace == {9, 10, 11, 12, 13, 32, 160, 5760, 8232, 8233, 8239, 8287, 12288, 65279} \cup (8192..8202)

RECURSIVE TrimStartWs(_), TrimEndWs(_)
TrimStartWs(s) == IF s # <<>> /\ Head(s) \in JsWhitespace THEN TrimStartWs(Tail(s)) ELSE s
TrimEndWs(s)   == IF s # <<>> /\ s[Len(s)] \in JsWhitespace THEN TrimEndWs(SubSeq(s, 1, Len(s) - 1)) ELSE s
JsTrim(s)      == TrimEndWs(TrimStartWs(s))         \* String.prototype.trim

(* keys of class objects / event names are TLA+ strings; the finite       *)
(* alphabets the generators use are spelled out here                      *)
KeyCp(k) ==
  CASE k = "a" -> <<97>> [] k = "b" -> <<98>> [] k = "c" -> <<99>> [] k = "d" -> <<100>>
    [] k = "on" -> <<111, 110>> [] k = "off" -> <<111, 102, 102>>
    [] OTHER -> <<63>>

OnName(k) ==                     \* transformOn: "on" + capitalised key
  CASE k = "click" -> "onClick" [] k = "foo" -> "onFoo" [] k = "bar" -> "onBar"
    [] k = "update:modelValue" -> "onUpdate:modelValue"
    [] OTHER -> "on" \o k

IsOnKey(k) ==                    \* /^on[^a-z]/ over the prop-key alphabet in use
  k \in {"onClick", "onFoo", "onBar", "onUpdate:modelValue", "onUpdate:foo", "onUpdate:bar",
         "onMouseenter", "on:x", "onUpdate:x", "onUpdate:m", "onUpdate:dyn", "onUpdate:title", "onUpdatedyn", "onUpdate:a_b", "onUpdate:inputValue"}

(* ------------------------------------------------------------------ *)
(* Vue: normalizeClass / normalizeStyle                                *)

RECURSIVE NormClassRaw(_), NormClassArr(_, _), NormClassObj(_, _)
NormClassArr(xs, i) ==
  IF i > Len(xs) THEN <<>>
  ELSE LET n == NormClassRaw(xs[i]) IN
       (IF n # <<>> THEN n \o <<32>> ELSE <<>>) \o NormClassArr(xs, i + 1)
NormClassObj(es, i) ==
  IF i > Len(es) THEN <<>>
  ELSE (IF Truthy(es[i][2]) THEN KeyCp(es[i][1]) \o <<32>> ELSE <<>>) \o NormClassObj(es, i + 1)
NormClassRaw(v) ==               \* code points of normalizeClass(v)
  JsTrim(CASE v.t = "str" -> v.cp
           [] v.t = "arr" -> NormClassArr(v.xs, 1)
           [] v.t = "obj" -> NormClassObj(v.es, 1)
           [] OTHER -> <<>>)
NormalizeClass(v) == Str(NormClassRaw(v))

RECURSIVE NormStyleArr(_, _, _)
NormalizeStyle(v) ==             \* strings inside arrays are not generated (parseStringStyle is not modelled)
  CASE v.t = "arr" -> Obj(NormStyleArr(v.xs, 1, <<>>))
    [] v.t \in {"str", "obj"} -> v
    [] OTHER -> Undef
NormStyleArr(xs, i, acc) ==
  IF i > Len(xs) THEN acc
  ELSE LET n == NormalizeStyle(xs[i]) IN
       NormStyleArr(xs, i + 1, IF n.t = "obj" THEN ObjAssignFrom(acc, n.es, 1) ELSE acc)

(* what createVNode does to the props it receives *)
VNodeProps(p) ==
  IF p.t # "obj" THEN p
  ELSE LET c  == ObjGet(p.es, "class")
           s  == ObjGet(p.es, "style")
           e1 == IF ObjHas(p.es, "class") /\ Truthy(c) /\ c.t # "str"
                 THEN ObjSet(p.es, "class", NormalizeClass(c)) ELSE p.es
           e2 == IF ObjHas(p.es, "style") /\ s.t \in {"obj", "arr"}
                 THEN ObjSet(e1, "style", NormalizeStyle(s)) ELSE e1
       IN Obj(e2)

(* ------------------------------------------------------------------ *)
(* Vue: mergeProps                                                     *)

SeqContains(xs, v) == \E i \in 1..Len(xs) : xs[i] = v

MergeKey(ret, k, incoming) ==
  CASE k = "class" ->
         LET cur == ObjGet(ret, "class") IN
         IF cur = incoming THEN ret
         ELSE ObjSet(ret, "class", NormalizeClass(Arr(<<cur, incoming>>)))
    [] k = "style" -> ObjSet(ret, "style", NormalizeStyle(Arr(<<ObjGet(ret, "style"), incoming>>)))
    [] IsOnKey(k) ->
         LET existing == ObjGet(ret, k) IN
         IF Truthy(incoming) /\ existing # incoming
            /\ ~(existing.t = "arr" /\ SeqContains(existing.xs, incoming))
         THEN ObjSet(ret, k, IF Truthy(existing)
                             THEN Arr((IF existing.t = "arr" THEN existing.xs ELSE <<existing>>)
                                      \o (IF incoming.t = "arr" THEN incoming.xs ELSE <<incoming>>))
                             ELSE incoming)
         ELSE ret
    [] k = "" -> ret
    [] OTHER -> ObjSet(ret, k, incoming)

RECURSIVE MergeOne(_, _, _), MergeArgs(_, _, _)
MergeOne(ret, es, i) == IF i > Len(es) THEN ret ELSE MergeOne(MergeKey(ret, es[i][1], es[i][2]), es, i + 1)
MergeArgs(ret, args, i) == IF i > Len(args) THEN ret ELSE MergeArgs(MergeOne(ret, EntriesOf(args[i]), 1), args, i + 1)
MergeProps(args) == Obj(MergeArgs(<<>>, args, 1))

RECURSIVE SpreadArgs(_, _, _)
SpreadArgs(ret, args, i) == IF i > Len(args) THEN ret ELSE SpreadArgs(ObjAssignFrom(ret, EntriesOf(args[i]), 1), args, i + 1)
ObjectSpread(args) == Obj(SpreadArgs(<<>>, args, 1))    \* {...a, ...b}: plain last-wins

TransformOn(v) == Obj([i \in 1..Len(EntriesOf(v)) |-> <<OnName(EntriesOf(v)[i][1]), EntriesOf(v)[i][2]>>])

(* the `_isSlot` question: a function, or a plain non-vnode object *)
IsSlotValue(v) == v.t \in {"fn", "obj", "opq"}
=============================================================================
