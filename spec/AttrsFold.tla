------------------------------- MODULE AttrsFold -------------------------------
(***************************************************************************)
(* The implementation-shaped model of `transform_attrs` (visitor/src/       *)
(* lib.rs): a left fold over the attributes of one element whose state is   *)
(* the patch-flag analysis — has_ref, has_class_binding, has_style_binding, *)
(* has_hydration_event_binding, has_dynamic_keys, the ordered set of        *)
(* dynamic prop names, the number of runtime directives — and the shape of  *)
(* the props expression (entries pending in `props`, arguments collected in *)
(* `merge_args`).  One Step per attribute; Finish computes the patch flag.  *)
(*                                                                          *)
(* Bound to the code by the `attrs_done` hook: for every enumerated          *)
(* attribute sequence the real event must carry exactly the fields this      *)
(* model predicts (Judge_C13 reports a difference as model drift).           *)
(* Model-level invariants (MC_C13F): FlagSoundModel — the model's own output *)
(* satisfies the clauses of Hints!PatchFlagWhy — and the bookkeeping         *)
(* invariants below.                                                         *)
(***************************************************************************)
EXTENDS Hints

(* the transform's notion of a constant attribute value (util::is_jsx_attr_value_constant) *)
RECURSIVE IsConstantExpr(_)
IsConstantExpr(e) ==
  CASE e.k = "lit" -> TRUE
    [] e.k = "undefined" -> TRUE
    [] e.k = "arrlit" -> \A i \in 1..Len(e.xs) : IsConstantExpr(e.xs[i])
    [] e.k = "objlit" -> \A i \in 1..Len(e.es) : IsConstantExpr(e.es[i][2])
    [] e.k = "objlitc" -> \A i \in 1..Len(e.ces) : IsConstantExpr(e.ces[i][1]) /\ IsConstantExpr(e.ces[i][3])   \* key and value
    [] OTHER -> FALSE
IsConstantValue(v) ==
  CASE v.k = "str" -> TRUE
    [] v.k = "expr" -> IsConstantExpr(v.e)
    [] OTHER -> FALSE              \* a value-less attribute is *not* treated as constant

AddDyn(dyn, n) == IF \E i \in 1..Len(dyn) : dyn[i] = n THEN dyn ELSE Append(dyn, n)     \* IndexSet

FoldInit == [hasRef |-> FALSE, hasClass |-> FALSE, hasStyle |-> FALSE, hasHydration |-> FALSE, hasDynamicKeys |-> FALSE,
             dyn |-> <<>>, directives |-> 0, props |-> 0, mergeArgs |-> 0, slots |-> FALSE]

(* props.push / merge_args.push bookkeeping: only the counts matter for the shape of the expression *)
PushProp(st, n) == [st EXCEPT !.props = @ + n]
FlushToMerge(st, o) == IF st.props > 0 /\ o.mergeProps THEN [st EXCEPT !.mergeArgs = @ + 1, !.props = 0] ELSE st

StepPlain(st, a, o, host) ==
  LET name == AttrKey(a)
      s1 == IF name = "ref" THEN [st EXCEPT !.hasRef = TRUE]
            ELSE IF IsConstantValue(a.val) THEN st
            ELSE LET s2 == IF ~host /\ IsOnKey(name) /\ name \notin {"onClick", "onclick"} /\ name # "onUpdate:modelValue"
                           THEN [st EXCEPT !.hasHydration = TRUE] ELSE st
                 IN CASE name = "class" /\ ~host -> [s2 EXCEPT !.hasClass = TRUE]
                      [] name = "style" /\ ~host -> [s2 EXCEPT !.hasStyle = TRUE]
                      [] name \in {"key", "ref"} -> s2
                      [] name \in {"on", "nativeOn"} /\ o.transformOn -> s2
                      [] OTHER -> [s2 EXCEPT !.dyn = AddDyn(@, name)]
  IN IF o.transformOn /\ name \in {"on", "nativeOn"}
     THEN LET s3 == [s1 EXCEPT !.hasDynamicKeys = TRUE] IN
          IF o.mergeProps THEN [FlushToMerge(s3, o) EXCEPT !.mergeArgs = @ + 1] ELSE PushProp(s3, 1)
     ELSE PushProp(s1, 1)

StepSpread(st, a, o) ==
  LET s1 == FlushToMerge([st EXCEPT !.hasDynamicKeys = TRUE], o) IN
  IF o.mergeProps THEN [s1 EXCEPT !.mergeArgs = @ + 1]
  ELSE IF a.e.k = "objlit" THEN PushProp(s1, Len(a.e.es)) ELSE PushProp(s1, 1)

StepVModel(st, m, o, host) ==
  LET hasMods == m.modform # "none" /\ m.mods # <<>>
      s1 == IF host
            THEN LET s2 == CASE m.argform = "none" -> [st EXCEPT !.dyn = AddDyn(@, "modelValue")]
                             [] m.argform \in {"colon", "str2"} -> [st EXCEPT !.dyn = AddDyn(@, m.arg)]
                             [] OTHER -> st
                 IN PushProp(s2, IF hasMods THEN 2 ELSE 1)
            ELSE [st EXCEPT !.directives = @ + 1]
      s3 == CASE m.argform = "none" -> [s1 EXCEPT !.dyn = AddDyn(@, "onUpdate:modelValue")]
              [] m.argform \in {"colon", "str2"} -> [s1 EXCEPT !.dyn = AddDyn(@, "onUpdate:" \o m.arg)]
              [] OTHER -> [s1 EXCEPT !.hasDynamicKeys = TRUE]
  IN PushProp(s3, 1)

Step(st, a, o, host) ==
  CASE a.k \in {"plain", "ns"} -> StepPlain(st, a, o, host)
    [] a.k = "spread" -> StepSpread(st, a, o)
    [] a.k = "dir"    -> [st EXCEPT !.directives = @ + 1]
    [] a.k = "vhtml"  -> PushProp([st EXCEPT !.dyn = AddDyn(@, "innerHTML")], 1)
    [] a.k = "vtext"  -> PushProp([st EXCEPT !.dyn = AddDyn(@, "textContent")], 1)
    [] a.k = "vmodel" -> StepVModel(st, a, o, host)
    [] a.k = "vslots" -> [st EXCEPT !.slots = TRUE]

RECURSIVE FoldFrom(_, _, _, _, _)
FoldFrom(st, attrs, o, host, i) == IF i > Len(attrs) THEN st ELSE FoldFrom(Step(st, attrs[i], o, host), attrs, o, host, i + 1)
Fold(attrs, o, host) == FoldFrom(FoldInit, ExpandVModels(attrs), o, host, 1)

FlagsOf(st) ==
  LET base == IF st.hasDynamicKeys THEN FULL_PROPS
              ELSE (IF st.hasClass THEN CLASS ELSE 0) + (IF st.hasStyle THEN STYLE ELSE 0)
                   + (IF st.dyn # <<>> THEN PROPS ELSE 0) + (IF st.hasHydration THEN HYDRATE_EVENTS ELSE 0)
  IN IF (base = 0 \/ base = HYDRATE_EVENTS) /\ (st.hasRef \/ st.directives > 0) THEN base + NEED_PATCH ELSE base

(* what the `attrs_done` hook must report for this element (no event at all when there are no attributes) *)
Predict(el, o) ==
  LET host == IsComponentHost(el.tag, o)  st == Fold(el.attrs, o, host) IN
  [ev |-> "attrs_done", component |-> host, flags |-> FlagsOf(st), has_ref |-> st.hasRef, has_class |-> st.hasClass,
   has_style |-> st.hasStyle, has_hydration |-> st.hasHydration, has_dynamic_keys |-> st.hasDynamicKeys,
   directives |-> st.directives, dynamic_props |-> st.dyn]

(* ---- model-level soundness: the model's own flags satisfy the clauses of the property ---- *)
FlagSoundModel(el, o) ==
  LET host  == IsComponentHost(el.tag, o)
      attrs == ExpandVModels(el.attrs)
      st    == Fold(el.attrs, o, host)
      n     == FlagsOf(st)
      names == UNION {DynNamesOfAttr(attrs[i], o, host) : i \in 1..Len(attrs)}
      dyn   == {st.dyn[i] : i \in 1..Len(st.dyn)}
  IN /\ n >= 0
     /\ (HasRefOrDirective(attrs, host) => n # HYDRATE_EVENTS)
     /\ (n > 0 /\ ~Bit(n, FULL_PROPS)) =>
          /\ ~RequiresFull(attrs, o)
          /\ \A name \in names : IF name = "class" /\ ~host THEN Bit(n, CLASS)
                                 ELSE IF name = "style" /\ ~host THEN Bit(n, STYLE)
                                 ELSE Bit(n, PROPS) /\ name \in dyn
=============================================================================
