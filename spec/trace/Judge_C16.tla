------------------------------- MODULE Judge_C16 -------------------------------
(* C16: the props option declares exactly the properties of the annotated type, required unless *)
(* optional; an unresolvable type is reported, never silently dropped.                          *)
EXTENDS JudgeTs
VARIABLES c, done

Why(ob, D) ==
  IF ~ob.abs.resolvable THEN
       (IF ob.drv.term.k # "return" THEN "transform:" \o ob.drv.term.k
        ELSE IF ob.drv.ndiag = 0 THEN "unresolvable-type-not-reported" ELSE "")
  ELSE LET no == NoObservation(ob) IN
  IF no # "" THEN no
  ELSE IF ob.drv.ndiag > 0 THEN "resolvable-type-reported-as-error"
  ELSE IF Component(ob).t # "component" THEN "not-a-component"
  ELSE LET want == PropKeys(ob.abs.type, Env(ob))  got == ObservedKeys(ob) IN
       IF ~HasOption(ob, "props") THEN (IF want = {} THEN "" ELSE "no-props-option")
       ELSE IF want \ got # {} THEN "missing-prop:" \o (CHOOSE k \in want \ got : TRUE)
       ELSE IF got \ want # {} THEN "extra-prop:" \o (CHOOSE k \in got \ want : TRUE)
       ELSE LET bad == {k \in want :
                          LET r == RequiredOf(ob.abs.type, Env(ob), k)
                              o == ObjGet(PropOptOf(ob, k).es, "required") IN
                          ~(r = "either" \/ (o.t = "bool" /\ o.b = (r = "required")))} IN
            IF bad # {} THEN "required-flag:" \o (CHOOSE k \in bad : TRUE) ELSE ""

ListedDevs == {}
Init == c \in 1..NObs /\ done = FALSE
Finish ==
  /\ ~done /\ done' = TRUE /\ c' = c
  /\ LET ob == Obs[c] IN PrintT(ToJson(Judged(ob, Why, ListedDevs, ob.abs.decls # <<>> \/ ~ob.abs.resolvable)))
Next == Finish
=============================================================================
