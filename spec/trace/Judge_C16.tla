------------------------------- MODULE Judge_C16 -------------------------------
(* C16: the props option declares exactly the properties of the annotated type, required unless *)
(* optional; an unresolvable type is reported, never silently dropped.                          *)
EXTENDS JudgeTs
VARIABLES c, done

(* the second component of a dual-scope case: the same annotation, resolved in the scope that re-declares the name *)
Second(ob) == ob.rt.exports[2][2]
SecondKeys(ob) ==
  LET p == ObjGet(Second(ob).eff.es, "props") IN IF p.t = "propsopt" THEN {p.es[i][1] : i \in 1..Len(p.es)} ELSE {"<no-props>"}
DualWhy(ob) ==
  IF ob.abs.place # "dual_scope" THEN ""
  ELSE IF Len(ob.rt.exports) < 2 \/ Second(ob).t # "component" THEN "second-call-not-observed"
  ELSE IF SecondKeys(ob) # PropKeys(ob.abs.type, ob.abs.shadow) THEN "inner-scope-declaration-not-used-for-the-inner-call"
  ELSE ""

Why(ob, D) ==
  IF ~ob.abs.resolvable THEN
       (IF ob.drv.term.k # "return" THEN "transform:" \o ob.drv.term.k
        ELSE IF ob.drv.ndiag = 0 THEN "unresolvable-type-not-reported" ELSE "")
  ELSE LET no == NoObservation(ob) IN
  IF no # "" THEN no
  ELSE IF ob.drv.ndiag > 0 THEN "resolvable-type-reported-as-error"
  ELSE IF Component(ob).t # "component" THEN "not-a-component"
  ELSE LET want == PropKeys(ob.abs.type, Env(ob))  got == ObservedKeys(ob) IN
       IF ~HasOption(ob, "props") THEN (IF want = {} THEN "" ELSE "no-props-option")
       ELSE IF want \ got # {} THEN "missing-prop:" \o (CHOOSE k \in want \ got : TRUE)
       ELSE IF got \ want # {} THEN "extra-prop:" \o (CHOOSE k \in got \ want : TRUE)
       ELSE LET bad == {k \in want :
                          LET r == RequiredOf(ob.abs.type, Env(ob), k)
                              o == ObjGet(PropOptOf(ob, k).es, "required") IN
                          ~(r = "either" \/ (o.t = "bool" /\ o.b = (r = "required")))} IN
            IF bad # {} THEN "required-flag:" \o (CHOOSE k \in bad : TRUE) ELSE DualWhy(ob)

ListedDevs == {}
Init == c \in 1..NObs /\ done = FALSE
Finish ==
  /\ ~done /\ done' = TRUE /\ c' = c
  /\ LET ob == Obs[c] IN PrintT(ToJson(Judged(ob, Why, ListedDevs, ob.abs.decls # <<>> \/ ~ob.abs.resolvable)))
Next == Finish
=============================================================================
