------------------------------- MODULE Judge_C01 -------------------------------
(* C01: vnode type and props are what the source denotes. *)
EXTENDS JudgeElem
VARIABLES c, done
ListedDevs == {}
Init == c \in 1..NObs /\ done = FALSE
Finish ==
  /\ ~done /\ done' = TRUE /\ c' = c
  /\ LET ob == Obs[c] IN PrintT(ToJson(Judged(ob, WhyElem, ListedDevs, ob.abs.items[1].elem.attrs # <<>> \/ ob.abs.kind = "tag")))
Next == Finish
=============================================================================
