------------------------------- MODULE Judge_C01 -------------------------------
(* C01: vnode type and props are what the source denotes. *)
EXTENDS JudgeElem
VARIABLES c, done
ListedDevs == {}
Init == c \in 1..NObs /\ done = FALSE
Finish ==
  /\ ~done /\ done' = TRUE /\ c' = c
  /\ LET ob == Obs[c]
         w  == WhyElem(ob, {})
     IN PrintT(ToJson(Verdict(ob, w = "", w, ob.abs.items[1].elem.attrs # <<>> \/ ob.abs.kind = "tag",
                              IF w = "" THEN {} ELSE {d \in ListedDevs : WhyElem(ob, {d}) = ""})))
Next == Finish
=============================================================================
