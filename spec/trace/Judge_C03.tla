------------------------------- MODULE Judge_C03 -------------------------------
(* C03: written children of a component host are delivered as the slots the source denotes; *)
(* a single call child is evaluated exactly once when the decision is made at runtime.       *)
EXTENDS JudgeElem
VARIABLES c, done

CountEv(evs, kind, id) == Cardinality({i \in 1..Len(evs) : evs[i].ev = kind /\ evs[i].id = id})

SingleCall(el) ==
  LET ccs == SelectSeq(Coalesce(el.children), Contributes) IN
  IF Len(ccs) = 1 /\ ccs[1].k = "expr" /\ Peel(ccs[1].e).k = "call" THEN Peel(ccs[1].e).name ELSE ""

(* "lazily evaluated": the vnodes of written child elements are created inside a slot invocation, never *)
(* while the host vnode itself is being created                                                        *)
ChildTags(el) == {el.children[i].el.tag.name : i \in {j \in 1..Len(el.children) : el.children[j].k = "elem" /\ el.children[j].el.tag.k = "html"}}
RECURSIVE DepthAt(_, _)
DepthAt(evs, i) ==            \* number of open slot frames before event i
  IF i <= 1 THEN 0 ELSE DepthAt(evs, i - 1) + (IF evs[i - 1].ev = "slot_begin" THEN 1 ELSE IF evs[i - 1].ev = "slot_end" THEN -1 ELSE 0)
EagerChild(ob) ==
  LET el == ob.abs.items[1].elem  evs == ob.rt.events IN
  \E i \in 1..Len(evs) : evs[i].ev = "vnode" /\ evs[i].tag \in ChildTags(el) /\ DepthAt(evs, i) = 0

Evaluations(ob) == IF ob.abs.items[1].ctx \in {"loop_first", "while_first", "calls_first", "field_first", "param_first"} THEN 2 ELSE 1
Why(ob, D) ==
  LET w == WhyElem(ob, D) IN
  \* Deviation (known finding): the temporary of a call child in a parameter default / class field initialiser is
  \* one variable of the enclosing scope, shared by all evaluations; the lazily read slot of an earlier vnode
  \* then shows the value of a later evaluation
  IF w # "" THEN (IF "Dev_SharedTemporaryAcrossEvaluations" \in D /\ ob.abs.items[1].ctx \in {"param_first", "field_first"}
                     /\ w = "s1:children" /\ SingleCall(ob.abs.items[1].elem) # "" /\ OptsOf(ob, D).enableObjectSlots
                  THEN "" ELSE w)
  ELSE IF EagerChild(ob) THEN "child-element-created-outside-its-slot"
  ELSE LET el == ob.abs.items[1].elem  f == SingleCall(el)  o == OptsOf(ob, D) IN
       \* the *_first contexts evaluate the site twice (and observe the first result)
       \* (beside `v-slots` the call child is ordinary default-slot content: evaluated whenever that slot runs)
       IF f # "" /\ o.enableObjectSlots /\ ~HasVSlots(el.attrs) /\ CountEv(ob.rt.events, "call", f) # Evaluations(ob) THEN "call-child-not-once"
       ELSE ""

ListedDevs == {"Dev_SharedTemporaryAcrossEvaluations"}
Init == c \in 1..NObs /\ done = FALSE
Finish ==
  /\ ~done /\ done' = TRUE /\ c' = c
  /\ LET ob == Obs[c] IN PrintT(ToJson(Judged(ob, Why, ListedDevs, TRUE)))
Next == Finish
=============================================================================
