------------------------------- MODULE Judge_C03 -------------------------------
(* C03: written children of a component host are delivered as the slots the source denotes; *)
(* a single call child is evaluated exactly once when the decision is made at runtime.       *)
EXTENDS JudgeElem
VARIABLES c, done

CountEv(evs, kind, id) == Cardinality({i \in 1..Len(evs) : evs[i].ev = kind /\ evs[i].id = id})

SingleCall(el) ==
  LET ccs == SelectSeq(Coalesce(el.children), Contributes) IN
  IF Len(ccs) = 1 /\ ccs[1].k = "expr" /\ ccs[1].e.k = "call" THEN ccs[1].e.name ELSE ""

(* "lazily evaluated": the vnodes of written child elements are created inside a slot invocation, never *)
(* while the host vnode itself is being created                                                        *)
ChildTags(el) == {el.children[i].el.tag.name : i \in {j \in 1..Len(el.children) : el.children[j].k = "elem" /\ el.children[j].el.tag.k = "html"}}
RECURSIVE DepthAt(_, _)
DepthAt(evs, i) ==            \* number of open slot frames before event i
  IF i <= 1 THEN 0 ELSE DepthAt(evs, i - 1) + (IF evs[i - 1].ev = "slot_begin" THEN 1 ELSE IF evs[i - 1].ev = "slot_end" THEN -1 ELSE 0)
EagerChild(ob) ==
  LET el == ob.abs.items[1].elem  evs == ob.rt.events IN
  \E i \in 1..Len(evs) : evs[i].ev = "vnode" /\ evs[i].tag \in ChildTags(el) /\ DepthAt(evs, i) = 0

Why(ob, D) ==
  LET w == WhyElem(ob, D) IN
  IF w # "" THEN w
  ELSE IF EagerChild(ob) THEN "child-element-created-outside-its-slot"
  ELSE LET el == ob.abs.items[1].elem  f == SingleCall(el)  o == OptsOf(ob, D) IN
       IF f # "" /\ o.enableObjectSlots /\ CountEv(ob.rt.events, "call", f) # 1 THEN "call-child-not-once"
       ELSE ""

ListedDevs == {}
Init == c \in 1..NObs /\ done = FALSE
Finish ==
  /\ ~done /\ done' = TRUE /\ c' = c
  /\ LET ob == Obs[c] IN PrintT(ToJson(Judged(ob, Why, ListedDevs, TRUE)))
Next == Finish
=============================================================================
