------------------------------- MODULE Judge_C14 -------------------------------
(* C14: per module, over all recorded runs under different configurations / spellings:               *)
(*   equal effective configuration => byte-identical output (absent = default = {}, unknown ignored), *)
(*   an invalid pattern is rejected when the configuration is read,                                   *)
(*   configurations that differ only in options whose feature the module does not use => identical.   *)
EXTENDS JudgeCore, Options
VARIABLES c, done

Hash(m) == IF m.drv.term.k = "return" THEN m.drv.out_hash ELSE "term:" \o m.drv.term.k
UsesOf(ob) == {ob.abs.uses[i] : i \in 1..Len(ob.abs.uses)}

GenNames(m) == IF "gen" \in DOMAIN m.drv THEN {m.drv.gen[i].name : i \in 1..Len(m.drv.gen)} ELSE {}
(* an option that is off (explicitly, or by its documented default) leaves no trace of its feature *)
OffButApplied(m) ==
  IF m.drv.term.k # "return" THEN ""
  ELSE IF ~m.abs.cfg.transformOn /\ "_transformOn" \in GenNames(m) THEN "transformOn"
  ELSE IF ~m.abs.cfg.mergeProps /\ "_mergeProps" \in GenNames(m) THEN "mergeProps"
  ELSE IF ~m.abs.cfg.enableObjectSlots /\ "_isSlot" \in GenNames(m) THEN "enableObjectSlots"
  ELSE IF ~m.abs.cfg.resolveType /\ "_mergeDefaults" \in GenNames(m) THEN "resolveType"
  ELSE ""

Why(ob, D) ==
  LET ms == ob.members
      V == {i \in 1..Len(ms) : ms[i].abs.valid}
      I == {i \in 1..Len(ms) : ~ms[i].abs.valid}
  IN
  IF \E i \in I : ms[i].drv.term.k # "config_error" THEN "invalid-pattern-not-rejected-at-read"
  ELSE IF \E i \in V : ms[i].drv.term.k = "config_error" THEN
         "valid-configuration-rejected:" \o ms[CHOOSE i \in V : ms[i].drv.term.k = "config_error"].abs.spelling
  ELSE IF \E i \in V : OffButApplied(ms[i]) # "" THEN
         "option-is-off-but-its-feature-is-applied:" \o OffButApplied(ms[CHOOSE i \in V : OffButApplied(ms[i]) # ""])
  ELSE IF \E i, j \in V : ms[i].abs.cfg = ms[j].abs.cfg /\ Hash(ms[i]) # Hash(ms[j]) THEN
         LET p == CHOOSE p \in V \X V : ms[p[1]].abs.cfg = ms[p[2]].abs.cfg /\ Hash(ms[p[1]]) # Hash(ms[p[2]]) IN
         "same-configuration-different-output:" \o ms[p[1]].abs.spelling \o "/" \o ms[p[2]].abs.spelling
  ELSE IF \E i, j \in V : Indistinguishable(ms[i].abs.cfg, ms[j].abs.cfg, UsesOf(ob)) /\ Hash(ms[i]) # Hash(ms[j]) THEN
         LET p == CHOOSE p \in V \X V : Indistinguishable(ms[p[1]].abs.cfg, ms[p[2]].abs.cfg, UsesOf(ob)) /\ Hash(ms[p[1]]) # Hash(ms[p[2]])
             o == CHOOSE o \in DOMAIN ms[p[1]].abs.cfg : ms[p[1]].abs.cfg[o] # ms[p[2]].abs.cfg[o]
         IN "option-affects-module-that-does-not-use-its-feature:" \o o
  ELSE ""

ListedDevs == {}
Init == c \in 1..NObs /\ done = FALSE
Finish ==
  /\ ~done /\ done' = TRUE /\ c' = c
  /\ LET ob == Obs[c] IN PrintT(ToJson(Judged(ob, Why, ListedDevs, TRUE)))
Next == Finish
=============================================================================
