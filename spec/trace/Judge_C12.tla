------------------------------- MODULE Judge_C12 -------------------------------
(* C12: the two recorded executions of one module — optimize on / off — are equal after erasing *)
(* the hints, and the optimize=false run carries no hints at all.                               *)
EXTENDS JudgeCore, Hints
VARIABLES c, done

MemberWith(ob, flag) == ob.members[CHOOSE i \in 1..Len(ob.members) : ob.members[i].abs.opts.optimize = flag]

RECURSIVE HasHints(_)
HasHintsSeq(xs) == \E i \in 1..Len(xs) : HasHints(xs[i])
HasHints(v) ==
  CASE v.t = "vnode" -> v.flag.t # "none" \/ v.dyn.t # "none" \/ HasHints(v.children) \/ HasHints(v.props)
    [] v.t = "slots" -> v.flag.t # "none" \/ \E i \in 1..Len(v.es) : HasHints(v.es[i][2])
    [] v.t = "thunk" -> HasHintsSeq(v.calls)
    [] v.t = "arr"   -> HasHintsSeq(v.xs)
    [] v.t = "obj"   -> \E i \in 1..Len(v.es) : HasHints(v.es[i][2])
    [] OTHER -> FALSE

(* a `_` entry the user wrote in an object-literal child is the user's, not a hint of the transform *)
UserWritesFlag(m) ==
  "items" \in DOMAIN m.abs /\ \E i \in 1..Len(m.abs.items) :
     "elem" \in DOMAIN m.abs.items[i] /\ \E j \in 1..Len(m.abs.items[i].elem.children) :
        LET ch == m.abs.items[i].elem.children[j] IN
        ch.k = "expr" /\ Peel(ch.e).k = "objlit" /\ \E n \in 1..Len(Peel(ch.e).es) : Peel(ch.e).es[n][1] = "_"

RECURSIVE WhyExports(_, _, _)
WhyExports(a, b, i) ==
  IF i > Len(a.rt.exports) THEN ""
  ELSE LET n == a.rt.exports[i][1]  va == a.rt.exports[i][2]  vb == FindExport(b.rt.exports, n, 1) IN
       IF EraseHints(va) # EraseHints(vb) THEN "differs-beyond-hints:" \o n
       ELSE IF HasHints(vb) /\ ~UserWritesFlag(b) THEN "hints-without-optimize:" \o n
       ELSE WhyExports(a, b, i + 1)

(* StackBalanced: the slot-flag stack is empty again when the module has been traversed (hook `drain_module.stack`) *)
StackLeft(m) ==
  LET ds == SelectSeq(m.drv.hooks, LAMBDA e : e.ev = "drain_module") IN IF ds = <<>> THEN 0 ELSE ds[Len(ds)].stack

Why(ob, D) ==
  LET a == MemberWith(ob, TRUE)  b == MemberWith(ob, FALSE) IN
  IF a.drv.term.k = "return" /\ b.drv.term.k = "return" /\ (StackLeft(a) # 0 \/ StackLeft(b) # 0) THEN "slot-flag-stack-not-balanced"
  ELSE IF NoObservation(a) # NoObservation(b) THEN "only-one-setting-runs:" \o NoObservation(a) \o "/" \o NoObservation(b)
  ELSE IF NoObservation(a) # "" THEN ""          \* neither runs: not C12's concern
  ELSE IF Len(a.rt.exports) # Len(b.rt.exports) THEN "export-count"
  ELSE WhyExports(a, b, 1)

NonTrivial(ob) ==
  LET a == MemberWith(ob, TRUE) IN \E i \in 1..Len(a.rt.exports) : HasHints(a.rt.exports[i][2])
ListedDevs == {}
Init == c \in 1..NObs /\ done = FALSE
Finish ==
  /\ ~done /\ done' = TRUE /\ c' = c
  /\ LET ob == Obs[c] IN PrintT(ToJson(Judged(ob, Why, ListedDevs, NonTrivial(ob))))
Next == Finish
=============================================================================
