------------------------------- MODULE Judge_C15 -------------------------------
(* C15: every element and fragment of the module is created by the factory the module denotes: *)
(* the `@jsx <name>` annotation at the head of the file or before a top-level statement, else   *)
(* the pragma option, else Vue's createVNode — which is imported iff it is used.                *)
EXTENDS JudgeCore
VARIABLES c, done

FactoryDenotes(ob, useNamed) ==
  IF useNamed /\ ob.abs.named # "" THEN ob.abs.named
  ELSE IF ob.abs.opts.pragma # "" THEN ob.abs.opts.pragma ELSE "createVNode"

RECURSIVE AllFactories(_)
FactoriesOfSeq(xs) == UNION {AllFactories(xs[i]) : i \in 1..Len(xs)}
AllFactories(v) ==
  CASE v.t = "vnode" -> {v.factory} \cup AllFactories(v.children)
    [] v.t = "arr" -> FactoriesOfSeq(v.xs)
    [] v.t = "slots" -> UNION {AllFactories(v.es[i][2]) : i \in 1..Len(v.es)}
    [] v.t = "thunk" -> FactoriesOfSeq(v.calls)
    [] OTHER -> {}

Used(ob) == UNION {AllFactories(ob.rt.exports[i][2]) : i \in 1..Len(ob.rt.exports)}
ImportsCreateVNode(ob) == \E i \in 1..Len(ob.drv.gen) : ob.drv.gen[i].name = "_createVNode"

WhyWith(ob, f) ==
  IF Used(ob) = {} THEN "no-vnode-observed"
  ELSE IF Used(ob) # {f} THEN "factory:" \o (CHOOSE g \in Used(ob) : g # f) \o ":expected:" \o f
  ELSE IF f # "createVNode" /\ ImportsCreateVNode(ob) THEN "createVNode-imported-but-unused"
  ELSE IF f = "createVNode" /\ ~ImportsCreateVNode(ob) THEN "createVNode-not-imported"
  ELSE ""

Why(ob, D) ==
  LET no == NoObservation(ob) IN
  IF no # "" THEN no
  ELSE LET w1 == WhyWith(ob, FactoryDenotes(ob, TRUE)) IN
       IF w1 = "" \/ ob.abs.strict THEN w1
       ELSE IF WhyWith(ob, FactoryDenotes(ob, FALSE)) = "" THEN "" ELSE w1     \* the silent case: either reading

ListedDevs == {}
Init == c \in 1..NObs /\ done = FALSE
Finish ==
  /\ ~done /\ done' = TRUE /\ c' = c
  /\ LET ob == Obs[c] IN PrintT(ToJson(Judged(ob, Why, ListedDevs, ob.abs.named # "" \/ ob.abs.opts.pragma # "")))
Next == Finish
=============================================================================
