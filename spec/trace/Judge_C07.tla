------------------------------- MODULE Judge_C07 -------------------------------
(* C07: for every module the parser accepts, a diagnostic was reported or the output has no JSX and *)
(* re-parses as a plain module of the same language.                                                 *)
EXTENDS JudgeCore, Wellformed
VARIABLES c, done
(* Deviation (known finding): component children are moved into a plain arrow function, so an `await` *)
(* or `yield` written in them ends up where it is not allowed and the output does not parse.           *)
Why(ob, D) ==
  LET w == WellFormedWhy(ob.drv) IN
  IF w = "output-is-not-a-program" /\ "Dev_AwaitYieldInSlot" \in D /\ "kind" \in DOMAIN ob.abs /\ ob.abs.kind = "await_yield_in_slot"
  THEN "" ELSE w
ListedDevs == {"Dev_AwaitYieldInSlot"}
Init == c \in 1..NObs /\ done = FALSE
Finish ==
  /\ ~done /\ done' = TRUE /\ c' = c
  /\ LET ob == Obs[c] IN PrintT(ToJson(Judged(ob, Why, ListedDevs, ob.drv.term.k = "return" /\ ob.drv.jsx_in > 0)))
Next == Finish
=============================================================================
