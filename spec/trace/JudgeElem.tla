------------------------------- MODULE JudgeElem -------------------------------
(* Judge for the single-element cases (C01-C05, C13): the canonical value of every  *)
(* exported JSX statement must be accepted by the denotation of its source element. *)
EXTENDS JudgeCore

RECURSIVE WhyItems(_, _, _)
WhyItems(ob, D, i) ==
  IF i > Len(ob.abs.items) THEN ""
  ELSE LET it == ob.abs.items[i] IN
       IF it.k # "export_jsx" THEN WhyItems(ob, D, i + 1)
       ELSE LET w == WhyNot(Export(ob, it.name), DenoteElem(it.elem, OptsOf(ob, D))) IN
            IF w # "" THEN it.name \o ":" \o w ELSE WhyItems(ob, D, i + 1)

WhyElem(ob, D) ==
  LET no == NoObservation(ob) IN IF no # "" THEN no ELSE WhyItems(ob, D, 1)
=============================================================================
