------------------------------- MODULE Judge_C18 -------------------------------
(* C18: the default Vue resolves for each prop is the value written in the parameter default      *)
(* (a Function-typed prop receives the written function itself); props without a default get none. *)
EXTENDS JudgeTs
VARIABLES c, done

PropNames == {"a", "b", "cb", "q-k", "z", "u", "w", "v"}
IsFunctionProp(k) == k = "cb"

EntryFor(ob, k) == LET idx == {i \in 1..Len(ob.abs.entries) : ob.abs.entries[i].key = k} IN
                   IF idx = {} THEN [form |-> "none"] ELSE ob.abs.entries[CHOOSE i \in idx : \A j \in idx : i >= j]   \* last one wins

(* expected: <<has-default, value denotation, (for function defaults) what calling it returns>> *)
FromEntry(en, k) ==
  CASE en.form = "none" -> [has |-> FALSE]
    [] en.form \in {"lit", "expr", "shorthand", "getter"} ->
         IF IsFunctionProp(k) THEN [has |-> TRUE, value |-> Eval(en.e), ret |-> IF "ret" \in DOMAIN Eval(en.e) THEN Eval(en.e).ret ELSE AnyV]
         ELSE [has |-> TRUE, value |-> Eval(en.e), ret |-> AnyV]
    [] en.form \in {"fn", "method"} -> [has |-> TRUE, value |-> [t |-> "fn", id |-> "anon"], ret |-> Eval(en.e)]   \* the written function itself
    [] en.form = "async_method" -> [has |-> TRUE, value |-> [t |-> "fn", id |-> "anon"], ret |-> AnyV]

FromDynValue(v, k) ==         \* Vue's rule for a default found at runtime (mergeDefaults)
  IF v.t = "fn" /\ ~IsFunctionProp(k) THEN [has |-> TRUE, value |-> IF "ret" \in DOMAIN v THEN v.ret ELSE AnyV, ret |-> AnyV]   \* called as a factory
  ELSE [has |-> TRUE, value |-> v, ret |-> IF "ret" \in DOMAIN v THEN v.ret ELSE AnyV]

Expected(ob, k) ==
  CASE ob.abs.form = "static" -> FromEntry(EntryFor(ob, k), k)
    [] ob.abs.form \in {"ident", "call"} ->
         IF ObjHas(ob.abs.dyn.es, k) THEN FromDynValue(ObjGet(ob.abs.dyn.es, k), k) ELSE [has |-> FALSE]
    [] ob.abs.form = "spread" ->
         IF EntryFor(ob, k).form # "none" THEN FromEntry(EntryFor(ob, k), k)
         ELSE IF ObjHas(ob.abs.dyn.es, k) THEN FromDynValue(ObjGet(ob.abs.dyn.es, k), k) ELSE [has |-> FALSE]
    [] ob.abs.form = "computed" ->
         IF k = "a" THEN [has |-> TRUE, value |-> Str(<<100, 107>>), ret |-> AnyV]      \* [kname]: 'dk'
         ELSE FromEntry(EntryFor(ob, k), k)

WhyKey(ob, k) ==
  LET e == Expected(ob, k)  opt == PropOptOf(ob, k) IN
  IF opt.t # "propopt" THEN "prop-option-shape:" \o k
  ELSE IF ~e.has THEN (IF opt.dflt.t # "none" THEN "default-where-none-was-written:" \o k ELSE "")
  ELSE IF opt.dflt.t # "some" THEN "default-lost:" \o k
  ELSE IF ~Accepts(opt.dflt.value, e.value) THEN "default-value:" \o k
  ELSE IF IsFunctionProp(k) /\ opt.dflt.value.t = "fn" /\ "ret" \in DOMAIN opt.dflt /\ ~Accepts(opt.dflt.ret, e.ret)
       THEN "function-default-is-not-the-written-function:" \o k
  ELSE ""

Why(ob, D) ==
  LET no == NoObservation(ob) IN
  IF no # "" THEN no
  ELSE IF ob.drv.ndiag > 0 THEN "reported-as-error"
  ELSE IF ~HasOption(ob, "props") \/ PropsOpt(ob).t # "propsopt" THEN "no-props-option"
  ELSE IF ObservedKeys(ob) # PropNames THEN "declared-props-changed"
  ELSE LET bad == {k \in PropNames : WhyKey(ob, k) # ""} IN
       IF bad = {} THEN "" ELSE WhyKey(ob, CHOOSE k \in bad : TRUE)

ListedDevs == {}
Init == c \in 1..NObs /\ done = FALSE
Finish ==
  /\ ~done /\ done' = TRUE /\ c' = c
  /\ LET ob == Obs[c] IN PrintT(ToJson(Judged(ob, Why, ListedDevs, ob.abs.entries # <<>> \/ ob.abs.form # "static")))
Next == Finish
=============================================================================
