------------------------------- MODULE Judge_C19 -------------------------------
(* C19: the emits option lists exactly the event names the SetupContext<E> annotation declares; *)
(* no emits without such an annotation.                                                         *)
EXTENDS JudgeTs
VARIABLES c, done

ObservedEmits(ob) ==
  LET e == ObjGet(Eff(ob), "emits") IN
  IF e.t = "arr" THEN {e.xs[i].s : i \in 1..Len(e.xs)} ELSE {"<not-an-array>"}

SecondEmits(ob) ==
  LET e == ObjGet(ob.rt.exports[2][2].eff.es, "emits") IN IF e.t = "arr" THEN {e.xs[i].s : i \in 1..Len(e.xs)} ELSE {"<no-emits>"}
DualWhy(ob) ==
  IF ob.abs.place # "dual_scope" THEN ""
  ELSE IF Len(ob.rt.exports) < 2 \/ ob.rt.exports[2][2].t # "component" THEN "second-call-not-observed"
  ELSE IF SecondEmits(ob) # EmitsOf(ob.abs.type, ob.abs.shadow) THEN "inner-scope-declaration-not-used-for-the-inner-call"
  ELSE ""

Why(ob, D) ==
  LET no == NoObservation(ob) IN
  IF no # "" THEN no
  ELSE IF Component(ob).t # "component" THEN "not-a-component"
  ELSE IF ~ob.abs.annotated THEN (IF HasOption(ob, "emits") THEN "emits-without-annotation" ELSE "")
  ELSE IF ob.drv.ndiag > 0 THEN "resolvable-type-reported-as-error"
  ELSE IF ~HasOption(ob, "emits") THEN "no-emits-option"
  ELSE LET want == EmitsOf(ob.abs.type, Env(ob))  got == ObservedEmits(ob) IN
       IF want \ got # {} THEN "missing-event:" \o (CHOOSE e \in want \ got : TRUE)
       ELSE IF got \ want # {} THEN "extra-event:" \o (CHOOSE e \in got \ want : TRUE)
       ELSE DualWhy(ob)

ListedDevs == {}
Init == c \in 1..NObs /\ done = FALSE
Finish ==
  /\ ~done /\ done' = TRUE /\ c' = c
  /\ LET ob == Obs[c] IN PrintT(ToJson(Judged(ob, Why, ListedDevs, TRUE)))
Next == Finish
=============================================================================
