------------------------------- MODULE Judge_C19 -------------------------------
(* C19: the emits option lists exactly the event names the SetupContext<E> annotation declares; *)
(* no emits without such an annotation.                                                         *)
EXTENDS JudgeTs
VARIABLES c, done

ObservedEmits(ob) ==
  LET e == ObjGet(Eff(ob), "emits") IN
  IF e.t = "arr" THEN {e.xs[i].s : i \in 1..Len(e.xs)} ELSE {"<not-an-array>"}

Why(ob, D) ==
  LET no == NoObservation(ob) IN
  IF no # "" THEN no
  ELSE IF Component(ob).t # "component" THEN "not-a-component"
  ELSE IF ~ob.abs.annotated THEN (IF HasOption(ob, "emits") THEN "emits-without-annotation" ELSE "")
  ELSE IF ob.drv.ndiag > 0 THEN "resolvable-type-reported-as-error"
  ELSE IF ~HasOption(ob, "emits") THEN "no-emits-option"
  ELSE LET want == EmitsOf(ob.abs.type, Env(ob))  got == ObservedEmits(ob) IN
       IF want \ got # {} THEN "missing-event:" \o (CHOOSE e \in want \ got : TRUE)
       ELSE IF got \ want # {} THEN "extra-event:" \o (CHOOSE e \in got \ want : TRUE)
       ELSE ""

ListedDevs == {}
Init == c \in 1..NObs /\ done = FALSE
Finish ==
  /\ ~done /\ done' = TRUE /\ c' = c
  /\ LET ob == Obs[c] IN PrintT(ToJson(Judged(ob, Why, ListedDevs, TRUE)))
Next == Finish
=============================================================================
