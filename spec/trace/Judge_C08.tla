------------------------------- MODULE Judge_C08 -------------------------------
(* C08: the transform returns (no panic, abort, timeout) and repeated runs, in this and in a fresh process, are byte-identical. *)
EXTENDS JudgeCore, Wellformed
VARIABLES c, done
(* declaration graphs emitted by MC_C08T (TypeResolve.tla): besides returning, a reachable cycle must be   *)
(* reported and an acyclic graph must not; the lookups the real code performed (resolve_ref hooks of the    *)
(* props resolution) are compared with the model's prediction — a mismatch there is model drift, not alarm *)
IsGraph(ob) == "graph" \in DOMAIN ob.abs
RealLookups(ob) ==
  LET es == SelectSeq(ob.drv.hooks, LAMBDA e : e.ev = "resolve_ref" /\ e.site = "elements") IN [i \in 1..Len(es) |-> es[i].name]
Why(ob, D) ==
  LET w == TotalWhy(ob.drv) IN
  IF w # "" \/ ~IsGraph(ob) \/ ob.drv.term.k # "return" THEN w
  ELSE IF ob.abs.cyclic /\ ob.drv.ndiag = 0 THEN "self-referential-type-not-reported"
  ELSE IF ~ob.abs.cyclic /\ ob.drv.ndiag > 0 THEN "acyclic-type-reported-as-error"
  ELSE ""
Drift(ob) == IF IsGraph(ob) /\ ob.drv.term.k = "return" /\ RealLookups(ob) # ob.abs.predicted THEN 1 ELSE 0
ListedDevs == {}
Init == c \in 1..NObs /\ done = FALSE
Finish ==
  /\ ~done /\ done' = TRUE /\ c' = c
  /\ LET ob == Obs[c] IN PrintT(ToJson([drift |-> Drift(ob)] @@ Judged(ob, Why, ListedDevs, ob.drv.term.k = "return" /\ (ob.drv.jsx_in > 0 \/ IsGraph(ob)))))
Next == Finish
=============================================================================
