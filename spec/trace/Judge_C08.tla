------------------------------- MODULE Judge_C08 -------------------------------
(* C08: the transform returns (no panic, abort, timeout) and repeated runs, in this and in a fresh process, are byte-identical. *)
EXTENDS JudgeCore, Wellformed
VARIABLES c, done
Why(ob, D) == TotalWhy(ob.drv)
ListedDevs == {}
Init == c \in 1..NObs /\ done = FALSE
Finish ==
  /\ ~done /\ done' = TRUE /\ c' = c
  /\ LET ob == Obs[c] IN PrintT(ToJson(Judged(ob, Why, ListedDevs, ob.drv.term.k = "return" /\ ob.drv.jsx_in > 0)))
Next == Finish
=============================================================================
