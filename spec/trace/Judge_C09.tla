------------------------------- MODULE Judge_C09 -------------------------------
(* C09: JSX-free code is left exactly as written (ordered embedding of fingerprints), JSX-free modules are unchanged, the transform is idempotent. *)
EXTENDS JudgeCore, Wellformed
VARIABLES c, done
Why(ob, D) == FrameWhy(ob.drv)
ListedDevs == {}
Init == c \in 1..NObs /\ done = FALSE
Finish ==
  /\ ~done /\ done' = TRUE /\ c' = c
  /\ LET ob == Obs[c] IN PrintT(ToJson(Judged(ob, Why, ListedDevs, ob.drv.term.k = "return" /\ ob.drv.jsx_in > 0)))
Next == Finish
=============================================================================
