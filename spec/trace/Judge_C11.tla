------------------------------- MODULE Judge_C11 -------------------------------
(***************************************************************************)
(* C11 — the evaluation-order monitor.  A state machine over the runtime    *)
(* event trace of one recorded execution of the real output: a stack of     *)
(* frames (vnode creation at the bottom, one frame per slot invocation),    *)
(* each with the sequence of constrained leaves still to be evaluated.  An  *)
(* event that would break Once / AttrOrder / AttrsBeforeChildren /          *)
(* ChildOrder / Lazy is not consumable, so the case is rejected AT that     *)
(* event; AllEvaluated is checked when a frame closes.                      *)
(***************************************************************************)
EXTENDS JudgeCore, EvalOrder

VARIABLES c, pos, stack, free, skipping, hoist, done
vars == <<c, pos, stack, free, skipping, hoist, done>>

Root(ob) == ob.abs.items[1].elem
O(ob)    == OptsOf(ob, {})
Ev       == Obs[c].rt.events

Frame(owner, exp, strict) == [owner |-> owner, exp |-> exp, strict |-> strict]

HasRepeats(el) ==
  LET bs == AttrBlocks(ExpandVModels(el.attrs), 1) IN
  \E i, j \in 1..Len(bs) : i < j /\ bs[i][1] = bs[j][1] /\ Mergeable(bs[i][1])
RECURSIVE AnyRepeats(_)
AnyRepeats(el) == HasRepeats(el) \/ \E i \in 1..Len(el.children) : el.children[i].k = "elem" /\ AnyRepeats(el.children[i].el)

Comps(ob) == Components(Root(ob), O(ob))
CompByOwner(ob, owner) == {e \in Comps(ob) : OwnerTag(e.tag) = owner}

RECURSIVE AllConstrainedOf(_, _, _)
AllConstrainedOf(ob, cs, h) ==         \* every constrained leaf id of the case
  {EagerOrder(Root(ob), O(ob), h)[i] : i \in 1..Len(EagerOrder(Root(ob), O(ob), h))}
  \cup UNION {{LazyOrder(e, O(ob), h)[i] : i \in 1..Len(LazyOrder(e, O(ob), h))} : e \in cs}

FreeSpec(ob) == EagerFree(Root(ob), O(ob))
FreeIds(ob)  == {FreeSpec(ob)[i][1] : i \in 1..Len(FreeSpec(ob))}

(* the tag the observer recorded for vnode n *)
TagOfVNode(n) ==
  LET idx == {i \in 1..Len(Ev) : Ev[i].ev = "vnode" /\ Ev[i].n = n} IN
  IF idx = {} THEN "?" ELSE Ev[CHOOSE i \in idx : TRUE].tag

Init ==
  /\ c \in 1..NObs
  /\ hoist \in (IF AnyRepeats(Root(Obs[c])) THEN BOOLEAN ELSE {FALSE})
  /\ pos = 0 /\ done = FALSE /\ skipping = FALSE
  /\ stack = <<Frame("", EagerOrder(Root(Obs[c]), O(Obs[c]), hoist), TRUE)>>
  /\ free = [i \in FreeIds(Obs[c]) |-> 0]

Top == stack[Len(stack)]
ReplaceTop(f) == [stack EXCEPT ![Len(stack)] = f]

(* ---- one action per runtime event kind ---- *)
LeafEvent(e) ==
  LET ob == Obs[c] IN
  IF skipping \/ e.id \in TrivialOf(Root(ob)) THEN UNCHANGED <<stack, free>>
  ELSE IF e.id \in FreeIds(ob) /\ Len(stack) = 1
       THEN free' = [free EXCEPT ![e.id] = @ + 1] /\ UNCHANGED stack
  ELSE IF e.id \in AllConstrainedOf(ob, Comps(ob), hoist)
       THEN /\ UNCHANGED free
            /\ IF Top.strict
               THEN /\ Top.exp # <<>> /\ Head(Top.exp) = e.id     \* Once, AttrOrder, AttrsBeforeChildren, ChildOrder, Lazy
                    /\ stack' = ReplaceTop([Top EXCEPT !.exp = Tail(@)])
               ELSE UNCHANGED stack
  ELSE UNCHANGED <<stack, free>>

SlotBegin(e) ==
  LET ob == Obs[c]  owner == TagOfVNode(e.n)  cs == CompByOwner(ob, owner) IN
  /\ UNCHANGED free
  /\ IF e.name = "default" /\ cs # {} /\ ~skipping
     THEN LET el == CHOOSE x \in cs : TRUE IN
          stack' = Append(stack, Frame(owner, LazyOrder(el, O(ob), hoist), LazyOrder(el, O(ob), hoist) # <<>>
                                                                         \/ SingleRuntimeChild(el, O(ob)) = <<>>))
     ELSE stack' = Append(stack, Frame(owner, <<>>, FALSE))

SlotEnd(e) ==
  /\ Len(stack) > 1
  /\ (Top.strict => Top.exp = <<>>)                 \* AllEvaluated, each time the slot is invoked
  /\ stack' = SubSeq(stack, 1, Len(stack) - 1)
  /\ UNCHANGED free

StepOn(e) ==
  CASE e.ev \in {"read", "call"} -> LeafEvent(e) /\ UNCHANGED skipping
    [] e.ev = "slot_begin" -> SlotBegin(e) /\ UNCHANGED skipping
    [] e.ev = "slot_end" -> SlotEnd(e) /\ UNCHANGED skipping
    [] e.ev = "targets_begin" -> skipping' = TRUE /\ UNCHANGED <<stack, free>>
    [] e.ev = "targets_end" -> skipping' = FALSE /\ UNCHANGED <<stack, free>>
    [] e.ev = "throw" -> FALSE
    [] OTHER -> UNCHANGED <<stack, free, skipping>>

Step ==
  /\ ~done /\ pos < Len(Ev) /\ NoObservation(Obs[c]) = ""
  /\ StepOn(Ev[pos + 1])
  /\ pos' = pos + 1
  /\ UNCHANGED <<c, hoist, done>>

FreeOK(ob) == \A i \in 1..Len(FreeSpec(ob)) : LET f == FreeSpec(ob)[i] IN free[f[1]] >= f[2] /\ free[f[1]] <= f[3]

WhyNow ==
  LET ob == Obs[c] IN
  IF NoObservation(ob) # "" THEN NoObservation(ob)
  ELSE IF pos < Len(Ev) THEN
       (IF Ev[pos + 1].ev \in {"read", "call"}
        THEN "order-or-once:" \o Ev[pos + 1].id \o (IF Top.exp = <<>> THEN ":unexpected-here" ELSE ":expected:" \o Head(Top.exp))
        ELSE IF Ev[pos + 1].ev = "slot_end" THEN "not-all-evaluated-in-slot:" \o (IF Top.exp = <<>> THEN "?" ELSE Head(Top.exp))
        ELSE "stuck:" \o Ev[pos + 1].ev)
  ELSE IF Len(stack) # 1 THEN "unbalanced-slot-frames"
  ELSE IF Top.exp # <<>> THEN "never-evaluated:" \o Head(Top.exp)
  ELSE IF ~FreeOK(ob) THEN "free-leaf-count"
  ELSE ""

Finish ==
  /\ ~done /\ ~ENABLED Step
  /\ done' = TRUE /\ UNCHANGED <<c, pos, stack, free, skipping, hoist>>
  /\ PrintT(ToJson([at |-> pos] @@ Verdict(Obs[c], WhyNow = "", WhyNow,
            Len(EagerOrder(Root(Obs[c]), O(Obs[c]), FALSE)) + Cardinality(Comps(Obs[c])) >= 2, {})))
Next == Step \/ Finish
=============================================================================
