------------------------------- MODULE Judge_C13 -------------------------------
(* C13: the hints observed on the real vnode calls are sound (Hints!HintsWhy), and — as a bonus  *)
(* cross-check — the vnode still is what the source denotes.                                     *)
EXTENDS JudgeElem, Hints
VARIABLES c, done

Why(ob, D) ==
  LET w == WhyElem(ob, D) IN
  IF w # "" THEN (IF NoObservation(ob) # "" THEN w ELSE "denotation:" \o w)
  ELSE LET it == ob.abs.items[1] IN HintsWhy(it.elem, Export(ob, it.name), OptsOf(ob, D))

ListedDevs == {"Dev_ComputedModelListenerNoColon"}

(* trace validation of AttrsFold.tla: the real `attrs_done` event of the element carries the predicted fields *)
Field(e, f) == IF f \in DOMAIN e THEN e[f] ELSE "<absent>"
(* ... and of SlotFlags.tla: the real push / fill / pop events of the tree are the predicted ones *)
StackEvents == {"enter_element", "enter_fragment", "fill_dynamic", "exit_children"}
SameEvent(r, p) == r.ev = p.ev /\ \A f \in DOMAIN p : Field(r, f) = p[f]
SlotDrift(ob) ==
  IF ob.drv.term.k # "return" \/ "slotflags" \notin DOMAIN ob.abs \/ ob.abs.slotflags = <<>> THEN 0
  ELSE LET real == SelectSeq(ob.drv.hooks, LAMBDA e : e.ev \in StackEvents)  p == ob.abs.slotflags IN
       IF Len(real) = Len(p) /\ \A i \in 1..Len(p) : SameEvent(real[i], p[i]) THEN 0 ELSE 1

Drift(ob) ==
  IF SlotDrift(ob) # 0 THEN 1 ELSE
  IF ob.drv.term.k # "return" \/ "fold" \notin DOMAIN ob.abs \/ ob.abs.fold = <<>> THEN 0
  ELSE LET real == SelectSeq(ob.drv.hooks, LAMBDA e : e.ev = "attrs_done")  p == ob.abs.fold[1] IN
       IF Len(real) = 1 /\ \A f \in DOMAIN p : Field(real[1], f) = p[f] THEN 0 ELSE 1
Init == c \in 1..NObs /\ done = FALSE
Finish ==
  /\ ~done /\ done' = TRUE /\ c' = c
  /\ LET ob == Obs[c] IN PrintT(ToJson([drift |-> Drift(ob)] @@ Judged(ob, Why, ListedDevs, ob.abs.opts.optimize)))
Next == Finish
=============================================================================
