------------------------------- MODULE Judge_C13 -------------------------------
(* C13: the hints observed on the real vnode calls are sound (Hints!HintsWhy), and — as a bonus  *)
(* cross-check — the vnode still is what the source denotes.                                     *)
EXTENDS JudgeElem, Hints
VARIABLES c, done

Why(ob, D) ==
  LET w == WhyElem(ob, D) IN
  IF w # "" THEN (IF NoObservation(ob) # "" THEN w ELSE "denotation:" \o w)
  ELSE LET it == ob.abs.items[1] IN HintsWhy(it.elem, Export(ob, it.name), OptsOf(ob, D))

ListedDevs == {"Dev_ComputedModelListenerNoColon"}
Init == c \in 1..NObs /\ done = FALSE
Finish ==
  /\ ~done /\ done' = TRUE /\ c' = c
  /\ LET ob == Obs[c] IN PrintT(ToJson(Judged(ob, Why, ListedDevs, ob.abs.opts.optimize)))
Next == Finish
=============================================================================
