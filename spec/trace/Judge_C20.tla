------------------------------- MODULE Judge_C20 -------------------------------
(* C20: what Vue's defineComponent effectively receives: the user's props / emits / name wherever  *)
(* the user supplied them; derived ones only for calls of the binding imported by name from 'vue'  *)
(* with resolveType on; everything else untouched.                                                  *)
EXTENDS JudgeTs
VARIABLES c, done

UserHas(ob, k) == ob.abs.user.t = "obj" /\ ObjHas(ob.abs.user.es, k)
IsVue(ob) == ob.abs.prov = "vue_named"
MaybeVue(ob) == ob.abs.prov = "vue_alias"                    \* imported from 'vue' under another name: the property is silent
FnFirst(ob) == ob.abs.shape # "nonfn_first"
ArgsSpread(ob) == ob.abs.shape \in {"spread_args", "spread_args_one"}
Augmentable(ob) == ob.abs.opts.resolveType /\ FnFirst(ob) /\ ~ArgsSpread(ob)
VarDecl(ob) == ob.abs.decl \in {"const", "let", "var", "export_const"}

Derived(ob, k, v) ==
  CASE k = "props" -> v.t = "propsopt" /\ {v.es[i][1] : i \in 1..Len(v.es)} = {"a"}
    [] k = "emits" -> v.t = "arr" /\ {v.xs[i].s : i \in 1..Len(v.xs)} = {"ev"}
    [] k = "name"  -> v.t = "str" /\ v.s = "C"

WhyKey(ob, k) ==
  LET has == HasOption(ob, k)
      v == ObjGet(Eff(ob), k)
      canDerive == IF k = "name" THEN ob.abs.opts.resolveType /\ VarDecl(ob) /\ ~ArgsSpread(ob) ELSE Augmentable(ob)
  IN
  IF UserHas(ob, k) THEN
       (IF ~has THEN "user-option-lost:" \o k
        ELSE IF ~Accepts(v, ObjGet(ob.abs.user.es, k)) THEN "user-option-overridden:" \o k ELSE "")
  ELSE IF ~FnFirst(ob) THEN ""                                        \* Vue ignores the second argument; either reading accepted
  ELSE IF IsVue(ob) /\ canDerive THEN
       (IF ~has THEN "not-augmented:" \o k ELSE IF ~Derived(ob, k, v) THEN "derived-wrong:" \o k ELSE "")
  ELSE IF MaybeVue(ob) /\ canDerive THEN
       (IF ~has \/ (k = "name" /\ v.t \in {"undef", "str"} /\ ~Derived(ob, k, v)) \/ Derived(ob, k, v) THEN "" ELSE "derived-wrong:" \o k)
  ELSE IF k = "name" THEN (IF has /\ Derived(ob, k, v) THEN "augmented-a-call-that-must-be-left-alone:name" ELSE "")
  ELSE IF has THEN "augmented-a-call-that-must-be-left-alone:" \o k
  ELSE ""

(* a component defined inside the options of another one is a call like any other: augmented under the same  *)
(* conditions, and - not being the initialiser of a declaration - never given the outer variable's name        *)
WhyNested(ob) ==
  IF ~HasOption(ob, "components") THEN "user-option-lost:components"
  ELSE LET cs == ObjGet(Eff(ob), "components") IN
       IF cs.t # "obj" \/ ~ObjHas(cs.es, "Row") \/ ObjGet(cs.es, "Row").t # "component" \/ ObjGet(cs.es, "Row").eff.t # "obj"
       THEN "nested-component-lost"
       ELSE LET inner == ObjGet(cs.es, "Row").eff.es
                nm == IF ObjHas(inner, "name") THEN ObjGet(inner, "name") ELSE Undef
                pr == IF ObjHas(inner, "props") THEN ObjGet(inner, "props") ELSE Undef
            IN IF nm.t = "str" /\ nm.s = "C" THEN "nested-component-took-the-variable-name"
               ELSE IF IsVue(ob) /\ ob.abs.opts.resolveType
                    THEN (IF pr.t = "propsopt" /\ {pr.es[i][1] : i \in 1..Len(pr.es)} = {"b"} THEN "" ELSE "nested-not-augmented:props")
               ELSE IF MaybeVue(ob) /\ ob.abs.opts.resolveType THEN ""
               ELSE IF pr.t # "undef" THEN "augmented-a-call-that-must-be-left-alone:nested-props" ELSE ""

Why(ob, D) ==
  LET no == NoObservation(ob) IN
  IF no # "" THEN no
  ELSE IF Component(ob).t # "component" THEN "not-a-component"
  ELSE IF ob.drv.ndiag > 0 THEN "reported-as-error"
  ELSE LET bad == {k \in {"props", "emits", "name"} : WhyKey(ob, k) # ""} IN
       IF bad # {} THEN WhyKey(ob, CHOOSE k \in bad : TRUE)
       ELSE IF ob.abs.shape = "nested" /\ WhyNested(ob) # "" THEN WhyNested(ob)
       ELSE IF UserHas(ob, "inheritAttrs") /\ ~HasOption(ob, "inheritAttrs") THEN "user-option-lost:inheritAttrs"
       ELSE ""

ListedDevs == {}
Init == c \in 1..NObs /\ done = FALSE
Finish ==
  /\ ~done /\ done' = TRUE /\ c' = c
  /\ LET ob == Obs[c] IN PrintT(ToJson(Judged(ob, Why, ListedDevs, ob.abs.opts.resolveType)))
Next == Finish
=============================================================================
