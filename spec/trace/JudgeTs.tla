-------------------------------- MODULE JudgeTs --------------------------------
(* shared by the resolveType judges: access to the observed component *)
EXTENDS JudgeCore, Types

Component(ob) == ob.rt.exports[1][2]          \* the canonical value of the exported defineComponent result
Eff(ob) == Component(ob).eff.es
HasOption(ob, n) == Component(ob).t = "component" /\ Component(ob).eff.t = "obj" /\ ObjHas(Eff(ob), n)
PropsOpt(ob) == ObjGet(Eff(ob), "props")
PropOptOf(ob, key) == ObjGet(PropsOpt(ob).es, key)
ObservedKeys(ob) == IF HasOption(ob, "props") /\ PropsOpt(ob).t = "propsopt" THEN {PropsOpt(ob).es[i][1] : i \in 1..Len(PropsOpt(ob).es)} ELSE {}
Env(ob) == ob.abs.decls

(* the observed `type` of a prop option as a sequence of constructor names ("null" for null) *)
TypeNames(v) ==
  LET one(x) == IF x.t = "ctor" THEN x.name ELSE IF x.t = "null" THEN "null" ELSE "?" \o x.t IN
  IF v.t = "arr" THEN [i \in 1..Len(v.xs) |-> one(v.xs[i])] ELSE <<one(v)>>
=============================================================================
