------------------------------- MODULE Judge_C02 -------------------------------
(* C02: the children an element receives are its written children, text cleaned *)
(* by the JSX whitespace rule.                                                  *)
EXTENDS JudgeCore

VARIABLES c, done

Why(ob, D) ==
  LET no == NoObservation(ob) IN
  IF no # "" THEN no
  ELSE LET it == ob.abs.items[1]
           d  == DenoteElem(it.elem, OptsOf(ob, D))
       IN WhyNot(Export(ob, it.name), d)

ListedDevs == {"Dev_SingleLineTrimEnd", "Dev_UnicodeTrim", "Dev_LoneCR"}

Init == c \in 1..NObs /\ done = FALSE
Finish ==
  /\ ~done /\ done' = TRUE /\ c' = c
  /\ LET ob == Obs[c] IN PrintT(ToJson(Judged(ob, Why, ListedDevs, ob.abs.items[1].elem.children # <<>>)))
Next == Finish
=============================================================================
