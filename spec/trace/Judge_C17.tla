------------------------------- MODULE Judge_C17 -------------------------------
(* C17: the runtime `type` of a prop is the set of constructors of the declared type's values   *)
(* (any/unknown: no check), with Boolean and String in declaration order.                       *)
EXTENDS JudgeTs
VARIABLES c, done

Pos(xs, v) == LET idx == {i \in 1..Len(xs) : xs[i] = v} IN IF idx = {} THEN 0 ELSE CHOOSE i \in idx : \A j \in idx : i <= j

Why(ob, D) ==
  LET no == NoObservation(ob) IN
  IF no # "" THEN no
  ELSE IF ~HasOption(ob, "props") \/ "p" \notin ObservedKeys(ob) THEN "prop-missing"
  ELSE LET opt  == PropOptOf(ob, "p")
           ty   == IF ObjHas(opt.es, "type") THEN ObjGet(opt.es, "type") ELSE [t |-> "absent"]
           want == CtorsD(ob.abs.ptype, Env(ob), D)
       IN
       IF IsFilter(ob.abs.ptype) THEN
            (IF ty.t \in {"null", "absent"} \/ (ty.t = "bool" /\ ty.b) THEN ""                \* no check never rejects
             ELSE LET got == SeqSet(TypeNames(ty))
                      inh == FilterInhab(ob.abs.ptype, Env(ob), D) \ {"ANY"}
                      parts == FilterParts(ob.abs.ptype, Env(ob), D) IN
                  IF \E x \in inh : ~AcceptsCtor(got, x) THEN "rejects-inhabitant:" \o (CHOOSE x \in inh : ~AcceptsCtor(got, x))
                  ELSE IF "ANY" \notin parts /\ got \ parts # {} THEN "accepts-foreign-constructor:" \o (CHOOSE x \in got \ parts : TRUE)
                  ELSE "")
       ELSE IF "ANY" \in SeqSet(want) THEN
            (IF ty.t \in {"null", "absent"} \/ (ty.t = "bool" /\ ty.b) THEN "" ELSE "type-check-where-any-value-is-allowed")
       ELSE IF ty.t \in {"absent", "null"} THEN ""                       \* no check at all (`type: null` or no `type`) never rejects
       ELSE LET got == TypeNames(ty) IN
            IF SeqSet(want) \ SeqSet(got) # {} THEN "rejects-inhabitant:" \o (CHOOSE x \in SeqSet(want) \ SeqSet(got) : TRUE)
            ELSE IF SeqSet(got) \ SeqSet(want) # {} THEN "accepts-foreign-constructor:" \o (CHOOSE x \in SeqSet(got) \ SeqSet(want) : TRUE)
            ELSE IF "Boolean" \in SeqSet(want) /\ "String" \in SeqSet(want)
                    /\ (Pos(want, "Boolean") < Pos(want, "String")) # (Pos(got, "Boolean") < Pos(got, "String"))
                 THEN "boolean-string-order"
            ELSE ""

ListedDevs == {"Dev_BigIntLiteralIsNumber"}
Init == c \in 1..NObs /\ done = FALSE
Finish ==
  /\ ~done /\ done' = TRUE /\ c' = c
  /\ LET ob == Obs[c] IN PrintT(ToJson(Judged(ob, Why, ListedDevs, TRUE)))
Next == Finish
=============================================================================
