------------------------------- MODULE Judge_C04 -------------------------------
(* C04: one runtime directive binding per directive attribute; v-html/v-text as props; nothing else disturbed. *)
EXTENDS JudgeElem
VARIABLES c, done
ListedDevs == {}
Init == c \in 1..NObs /\ done = FALSE
Finish ==
  /\ ~done /\ done' = TRUE /\ c' = c
  /\ LET ob == Obs[c] IN PrintT(ToJson(Judged(ob, WhyElem, ListedDevs, TRUE)))
Next == Finish
=============================================================================
