------------------------------- MODULE JudgeCore -------------------------------
(***************************************************************************)
(* Common part of every judge.  A judge reads the recorded observations of *)
(* the real system (one JSON object per case: abstract case ⨝ what the     *)
(* real transform produced ⨝ what the real output did when it ran), makes  *)
(* each case its own initial state, consumes the case's events, and prints *)
(* exactly one verdict record per case.  Verdicts are data, not TLC errors.*)
(***************************************************************************)
EXTENDS Denote, Json, IOUtils, TLCExt

Obs == ndJsonDeserialize(IOEnv.OBS)
NObs == Len(Obs)

(* the options of a case, with the set of deviations to assume (DESIGN §5) *)
OptsOf(ob, D) == [devs |-> D] @@ ob.abs.opts

Returned(ob)   == ob.drv.term.k = "return"
Executed(ob)   == Returned(ob) /\ ob.ran /\ ob.rt.errors = <<>>
NoObservation(ob) ==
  IF ~Returned(ob) THEN "transform:" \o ob.drv.term.k
  ELSE IF ~ob.ran THEN "not-run:" \o ob.why_not_run
  ELSE IF ob.rt.errors # <<>> THEN "runtime:" \o ob.rt.errors[1].name \o ":" \o ob.rt.errors[1].during
  ELSE ""

RECURSIVE FindExport(_, _, _)
FindExport(xs, name, i) ==
  IF i > Len(xs) THEN [t |-> "missing"] ELSE IF xs[i][1] = name THEN xs[i][2] ELSE FindExport(xs, name, i + 1)
Export(ob, name) == FindExport(ob.rt.exports, name, 1)

Verdict(ob, ok, why, nontrivial, explainedBy) ==
  [verdict |-> IF ok THEN "accept" ELSE "reject", case |-> ob.case, why |-> why,
   nontrivial |-> nontrivial, explainedBy |-> explainedBy, marker |-> "VERDICT"]
(* Verdict with attribution (DESIGN 5): a rejection is explained by a listed deviation d iff the *)
(* observation is accepted with exactly d's deviant behaviour substituted.  When no deviation    *)
(* explains it but one changes the reason, the reason under that deviation is the informative one *)
(* (a different wrong value inside a known region).                                              *)
Judged(ob, Why(_, _), Listed, nontrivial) ==
  LET w0 == Why(ob, {}) IN
  IF w0 = "" THEN Verdict(ob, TRUE, "", nontrivial, {})
  ELSE LET by  == {d \in Listed : Why(ob, {d}) = ""}
           alt == {d \in Listed : Why(ob, {d}) # w0}
       IN Verdict(ob, FALSE,
                  IF by = {} /\ alt # {}
                  THEN LET d == CHOOSE x \in alt : TRUE IN Why(ob, {d}) \o " [beyond " \o d \o "]"
                  ELSE w0,
                  nontrivial, by)
=============================================================================
