------------------------------- MODULE Judge_C05 -------------------------------
(* C05: v-model attaches the right model directive / props and a listener that assigns the bound target. *)
EXTENDS JudgeElem
VARIABLES c, done
ListedDevs == {"Dev_ComputedModelListenerNoColon"}
Init == c \in 1..NObs /\ done = FALSE
Finish ==
  /\ ~done /\ done' = TRUE /\ c' = c
  /\ LET ob == Obs[c] IN PrintT(ToJson(Judged(ob, WhyElem, ListedDevs, TRUE)))
Next == Finish
=============================================================================
