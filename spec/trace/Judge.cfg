INIT Init
NEXT Next
