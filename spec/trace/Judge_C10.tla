------------------------------- MODULE Judge_C10 -------------------------------
(* C10: the value a JSX statement evaluates to inside a composed module (prefix ++ statement ++     *)
(* suffix) is what its source denotes and, when prefix and suffix write no binding it references,   *)
(* equal to the value of the same statement transformed and executed alone.                         *)
EXTENDS JudgeCore
VARIABLES c, done

MemberOf(ob, suffix) == ob.members[CHOOSE i \in 1..Len(ob.members) : ob.members[i].abs.case = ob.case \o suffix]
StmtValue(m) == LET all == Export(m, "$all") IN IF all.t = "obj" THEN ObjGet(all.es, "stmt") ELSE [t |-> "missing"]
StmtIsDc(m) == \E i \in 1..Len(m.abs.sites) : m.abs.sites[i].id = "stmt" /\ m.abs.sites[i].kind = "dc"
(* the typed defineComponent statement: alone it is augmented with exactly the declared props *)
DcWhy(v) ==
  IF v.t # "component" \/ v.eff.t # "obj" THEN "not-a-component"
  ELSE IF ~ObjHas(v.eff.es, "props") \/ ObjGet(v.eff.es, "props").t # "propsopt" THEN "not-augmented:props"
  ELSE LET pr == ObjGet(v.eff.es, "props") IN
       IF {pr.es[i][1] : i \in 1..Len(pr.es)} # {"a", "n"} THEN "derived-wrong:props" ELSE ""
StmtElem(m) == LET idx == {i \in 1..Len(m.abs.sites) : m.abs.sites[i].id = "stmt"} IN m.abs.sites[CHOOSE i \in idx : TRUE].elem

RuntimeWhy(m, D) ==
  IF m.drv.term.k # "return" THEN "transform:" \o m.drv.term.k
  ELSE IF ~m.ran THEN "not-run:" \o m.why_not_run
  ELSE IF m.rt.errors # <<>> THEN "runtime:" \o m.rt.errors[1].name \o ":" \o m.rt.errors[1].during
  ELSE ""

Why(ob, D) ==
  LET a == MemberOf(ob, "#alone")  k == MemberOf(ob, "#composed")
      o == OptsOf(a, D)
      d == DenoteElem(StmtElem(a), o)
      dd == IF a.abs.related THEN [d EXCEPT !.children = AnyV] ELSE d
      tdz == "Dev_CaptureAboveDeclaration" \in D
             /\ \E i \in 1..Len(k.abs.module) : k.abs.module[i].k = "assign" /\ k.abs.module[i].rhs.k = "site"
  IN
  IF RuntimeWhy(a, D) # "" THEN "alone:" \o RuntimeWhy(a, D)
  ELSE IF RuntimeWhy(k, D) # "" THEN (IF tdz /\ RuntimeWhy(k, D) = "runtime:ReferenceError:import" THEN "" ELSE "composed:" \o RuntimeWhy(k, D))
  ELSE IF StmtIsDc(a) THEN
         (IF DcWhy(StmtValue(a)) # "" THEN "alone:" \o DcWhy(StmtValue(a))
          ELSE IF DcWhy(StmtValue(k)) # "" THEN "composed:" \o DcWhy(StmtValue(k))
          ELSE IF StmtValue(a) # StmtValue(k) THEN "composed-differs-from-alone" ELSE "")
  ELSE IF WhyNot(StmtValue(a), d) # "" THEN "alone:" \o WhyNot(StmtValue(a), d)
  ELSE IF WhyNot(StmtValue(k), dd) # "" THEN "composed:" \o WhyNot(StmtValue(k), dd)
  ELSE IF ~a.abs.related /\ StmtValue(a) # StmtValue(k) THEN "composed-differs-from-alone"
  ELSE ""

ListedDevs == {"Dev_CaptureAboveDeclaration"}
Init == c \in 1..NObs /\ done = FALSE
Finish ==
  /\ ~done /\ done' = TRUE /\ c' = c
  /\ LET ob == Obs[c] IN PrintT(ToJson(Judged(ob, Why, ListedDevs, TRUE)))
Next == Finish
=============================================================================
