------------------------------- MODULE Judge_C06 -------------------------------
(***************************************************************************)
(* C06 — every name the transform introduces is bound, in scope and         *)
(* initialised.  Judged on recorded facts about the REAL output:            *)
(*   free variables, identity partition before/after printing, generated    *)
(*   bindings and their uses, runtime ReferenceError/TypeError, site values *)
(* and, as trace validation of the implementation-shaped model, the real    *)
(* hook trace of the traversal is stepped against the trace Visitor.tla     *)
(* predicts for the same module (a mismatch is MODEL-DRIFT, never an alarm).*)
(***************************************************************************)
EXTENDS JudgeCore

VARIABLES c, pos, done

ScopeEvents == {"enter_stmts", "exit_stmts", "enter_arrow", "exit_arrow", "gen_slot", "iife_take", "capture",
                "assign_enter", "assign_exit", "assign_seen", "drain_module"}
RealTrace(ob) == SelectSeq(ob.drv.hooks, LAMBDA e : e.ev \in ScopeEvents)
Predicted(ob) == ob.abs.predicted

(* does the real event carry the values the model predicts? (only the fields the model predicts) *)
Field(e, f) == IF f \in DOMAIN e THEN e[f] ELSE "<absent>"
SameEvent(r, p) == r.ev = p.ev /\ \A f \in DOMAIN p : Field(r, f) = p[f]

SetOf(xs) == {xs[i] : i \in 1..Len(xs)}

HasModuleLevelOwnCapture(ob) ==
  \E i \in 1..Len(ob.abs.module) : ob.abs.module[i].k = "assign" /\ ob.abs.module[i].rhs.k = "site"
                                    /\ ob.abs.module[i].rhs.kind = "ident"
HasAssign(ob) == \E i \in 1..Len(ob.abs.predicted) : ob.abs.predicted[i].ev \in {"assign_enter", "assign_seen"}

RECURSIVE WhySites(_, _, _)
WhySites(ob, o, i) ==
  IF i > Len(ob.abs.sites) THEN ""
  ELSE LET s == ob.abs.sites[i]
           all == Export(ob, "$all")
           v == IF all.t = "obj" THEN ObjGet(all.es, s.id) ELSE [t |-> "missing"]
           d == DenoteElem(s.elem, o)
           dd == IF s.kind = "ident" /\ HasAssign(ob) THEN [d EXCEPT !.children = AnyV] ELSE d
       IN IF v.t = "undef" THEN WhySites(ob, o, i + 1)        \* site not evaluated (e.g. nested arrow never reached)
          ELSE IF WhyNot(v, dd) # "" THEN s.id \o ":" \o WhyNot(v, dd) ELSE WhySites(ob, o, i + 1)

Why(ob, D) ==
  LET d == ob.drv IN
  IF d.term.k = "parse_error" THEN ""                                      \* not a module of the input language
  ELSE IF d.term.k # "return" THEN "transform:" \o d.term.k
  ELSE IF d.reparse.t # "ok" THEN "output-does-not-reparse"
  ELSE IF ~(SetOf(d.free_out) \subseteq SetOf(d.free_in)) THEN
         "free-variable:" \o (CHOOSE x \in SetOf(d.free_out) \ SetOf(d.free_in) : TRUE)
  ELSE IF d.ids_raw # d.ids_out THEN "binding-identity-changed-by-printing"
  ELSE IF d.loose # <<>> THEN "generated-name-without-declaration:" \o d.loose[1]
  ELSE IF \E i \in 1..Len(d.gen) : d.gen[i].uses = 0 THEN
         "unused-generated-binding:" \o d.gen[CHOOSE i \in 1..Len(d.gen) : d.gen[i].uses = 0].name
  ELSE IF \E i \in 1..Len(d.gen) : d.gen[i].decls # 1 THEN "generated-binding-declared-twice"
  ELSE IF ~ob.ran THEN "not-run:" \o ob.why_not_run
  ELSE IF ob.rt.errors # <<>> THEN
         (IF "Dev_CaptureAboveDeclaration" \in D /\ HasModuleLevelOwnCapture(ob)
             /\ ob.rt.errors[1].name = "ReferenceError" /\ ob.rt.errors[1].during = "import"
          THEN "" ELSE "runtime:" \o ob.rt.errors[1].name \o ":" \o ob.rt.errors[1].during)
  ELSE LET all == Export(ob, "$all")
           userOK(n) == all.t # "obj" \/ ~ObjHas(all.es, "u" \o n) \/ ObjGet(all.es, "u" \o n).s = "user" \o n
       IN IF \E n \in {"_slot", "_a", "_createVNode", "_isSlot", "_Fragment"} : ~userOK(n) THEN "user-binding-captured-or-shadowed"     \* a user's `_slot` / `_a` keeps its value
          ELSE WhySites(ob, OptsOf(ob, D), 1)

ListedDevs == {"Dev_CaptureAboveDeclaration"}

(* ---- trace validation of the model: step the real hook trace against the predicted one ---- *)
Init == c \in 1..NObs /\ pos = 0 /\ done = FALSE
Step ==
  /\ ~done
  /\ LET r == RealTrace(Obs[c])  p == Predicted(Obs[c]) IN
     /\ pos < Len(r) /\ pos < Len(p) /\ SameEvent(r[pos + 1], p[pos + 1])
  /\ pos' = pos + 1 /\ UNCHANGED <<c, done>>
(* the helper imports the real visitor requested (`import` hook events) are the ones the model's `imports` holds *)
ImportsAgree(ob) == ("imports" \in DOMAIN ob.abs /\ "imports" \in DOMAIN ob.drv) => SetOf(ob.abs.imports) = SetOf(ob.drv.imports)
Drift(ob) == IF ob.drv.term.k # "return" THEN 0
             ELSE IF pos = Len(RealTrace(ob)) /\ pos = Len(Predicted(ob)) THEN (IF ImportsAgree(ob) THEN 0 ELSE 9999) ELSE pos + 1
Finish ==
  /\ ~done /\ ~ENABLED Step /\ done' = TRUE /\ UNCHANGED <<c, pos>>
  /\ LET ob == Obs[c] IN
     PrintT(ToJson([drift |-> Drift(ob), at |-> pos] @@ Judged(ob, Why, ListedDevs, Len(ob.abs.predicted) > 2)))
Next == Step \/ Finish
=============================================================================
