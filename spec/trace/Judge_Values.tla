------------------------------ MODULE Judge_Values ------------------------------
(* Self-test: the JavaScript mock of Vue's runtime functions (harness/runtime/mockvue.mjs) was run on  *)
(* generated values; every recorded result must equal what spec/Values.tla computes for the same input. *)
EXTENDS Values, Json, IOUtils, TLCExt
VARIABLES c, done

Obs == ndJsonDeserialize(IOEnv.OBS)

Expected(r) ==
  CASE r.fn = "normalizeClass" -> NormalizeClass(r.args[1])
    [] r.fn = "normalizeStyle" -> NormalizeStyle(r.args[1])
    [] r.fn = "mergeProps"     -> MergeProps(r.args)
    [] r.fn = "transformOn"    -> TransformOn(r.args[1])

Init == c \in 1..Len(Obs) /\ done = FALSE
Finish ==
  /\ ~done /\ done' = TRUE /\ c' = c
  /\ LET r == Obs[c]  ok == Expected(r) = r.result IN
     PrintT(ToJson([marker |-> "VERDICT", case |-> r.case, verdict |-> IF ok THEN "accept" ELSE "reject",
                    why |-> IF ok THEN "" ELSE r.fn]))
Next == Finish
=============================================================================
