------------------------------- MODULE EvalOrder -------------------------------
(***************************************************************************)
(* C11 — the evaluation-order discipline of a JSX expression, as data the   *)
(* monitor (trace/Judge_C11) consumes:                                      *)
(*   - EagerOrder(el): the constrained leaves (non-trivial expressions in   *)
(*     plain attribute values, spread arguments and eagerly evaluated       *)
(*     children) in the order the property demands at vnode creation:       *)
(*     attributes in source order (a repeated class/style/listener at its   *)
(*     own position or at the position of its first occurrence), before     *)
(*     children, children in source order, nested elements in place;        *)
(*   - LazyOrder(el): the same for the children of a component host, which  *)
(*     must run only inside — and in each of — its slot invocations;        *)
(*   - Free(el): leaves that must be evaluated exactly once per evaluation  *)
(*     of the enclosing frame but whose position the property leaves open   *)
(*     (tag, directive values/arguments, v-slots, v-model target/argument). *)
(* A leaf is identified by its probe id (name, or obj.prop).                *)
(***************************************************************************)
EXTENDS Denote

LeafId(e) == IF e.k \in {"member", "index"} THEN e.obj \o "." \o e.prop ELSE e.name
IsProbe(e) == (e.k = "ident" /\ ~e.bound) \/ e.k \in {"call", "member", "index"}

RECURSIVE AllLeaves(_), LeavesOfEntries(_, _), LeavesOfCEntries(_, _), LeavesOfItems(_, _)
AllLeaves(e) ==           \* every observable leaf of an expression, in evaluation order
  CASE IsProbe(e) -> <<LeafId(e)>>
    [] e.k = "objlit" -> LeavesOfEntries(e.es, 1)
    [] e.k = "objlitc" -> LeavesOfCEntries(e.ces, 1)
    [] e.k = "arrlit" -> LeavesOfItems(e.xs, 1)
    [] e.k = "wrap" -> AllLeaves(e.e)
    [] OTHER -> <<>>          \* literals, bound identifiers, function expressions (bodies run later)
LeavesOfEntries(es, i) == IF i > Len(es) THEN <<>> ELSE AllLeaves(es[i][2]) \o LeavesOfEntries(es, i + 1)
LeavesOfCEntries(ces, i) == IF i > Len(ces) THEN <<>> ELSE AllLeaves(ces[i][1]) \o AllLeaves(ces[i][3]) \o LeavesOfCEntries(ces, i + 1)
LeavesOfItems(xs, i) == IF i > Len(xs) THEN <<>> ELSE AllLeaves(xs[i]) \o LeavesOfItems(xs, i + 1)

(* constrained leaves of a written expression: nothing for a bare identifier or literal *)
Leaves(e) == IF IsTrivial(e) THEN <<>> ELSE AllLeaves(e)
(* a trivial but observable leaf (unbound bare identifier): its reads are ignored by the monitor *)
TrivialIds(e) == IF IsTrivial(e) /\ IsProbe(e) THEN {LeafId(e)} ELSE {}

AttrValLeaves(v) == IF v.k = "expr" THEN Leaves(v.e) ELSE IF v.k = "arr" THEN <<>> ELSE <<>>

Mergeable(name) == name \in {"class", "style"} \/ IsOnKey(name)

(* attribute part: sequence of <<name-or-"", leaves>> blocks in source order *)
RECURSIVE AttrBlocks(_, _)
AttrBlocks(attrs, i) ==
  IF i > Len(attrs) THEN <<>>
  ELSE LET a == attrs[i] IN
       (CASE a.k \in {"plain", "ns"} -> << <<AttrKey(a), AttrValLeaves(a.val)>> >>
          [] a.k = "spread" -> << <<"...", Leaves(a.e)>> >>
          [] OTHER -> <<>>) \o AttrBlocks(attrs, i + 1)

(* move every repeated mergeable attribute's leaves behind its first occurrence *)
RECURSIVE HoistRepeats(_, _, _)
HoistRepeats(blocks, i, acc) ==     \* acc: sequence of <<name, leaves>> with merged repeats
  IF i > Len(blocks) THEN acc
  ELSE LET b == blocks[i]
           first == {j \in 1..Len(acc) : acc[j][1] = b[1]}
       IN IF Mergeable(b[1]) /\ first # {}
          THEN LET j == CHOOSE j \in first : TRUE IN
               HoistRepeats(blocks, i + 1, [acc EXCEPT ![j] = <<b[1], acc[j][2] \o b[2]>>])
          ELSE HoistRepeats(blocks, i + 1, Append(acc, b))

RECURSIVE FlattenBlocks(_, _)
FlattenBlocks(bs, i) == IF i > Len(bs) THEN <<>> ELSE bs[i][2] \o FlattenBlocks(bs, i + 1)

AttrOrder(attrs, hoist) ==
  LET bs == AttrBlocks(attrs, 1) IN
  FlattenBlocks(IF hoist THEN HoistRepeats(bs, 1, <<>>) ELSE bs, 1)

RECURSIVE EagerOrder(_, _, _), KidsOrder(_, _, _, _)
SingleRuntimeChild(el, o) ==       \* the single child that is evaluated with the vnode: identifier / call decided at runtime, object literal
  LET ccs == SelectSeq(Coalesce(el.children), Contributes) IN
  IF o.enableObjectSlots /\ ~HasVSlots(el.attrs) /\ Len(ccs) = 1 /\ ccs[1].k = "expr" /\ Peel(ccs[1].e).k \in {"ident", "call"}
  THEN <<Peel(ccs[1].e)>>
  ELSE IF Len(ccs) = 1 /\ ccs[1].k = "expr" /\ Peel(ccs[1].e).k = "objlit"
  THEN <<Peel(ccs[1].e)>>          \* a single object-literal child IS the slots object: built when the vnode is created (C03)
  ELSE <<>>

KidsOrder(cs, o, hoist, i) ==
  IF i > Len(cs) THEN <<>>
  ELSE (CASE cs[i].k \in {"expr", "spread"} -> Leaves(cs[i].e)
          [] cs[i].k = "elem" -> EagerOrder(cs[i].el, o, hoist)
          [] OTHER -> <<>>) \o KidsOrder(cs, o, hoist, i + 1)

EagerOrder(el, o, hoist) ==
  AttrOrder(ExpandVModels(el.attrs), hoist /\ o.mergeProps)
  \o (IF IsComponentHost(el.tag, o)
      THEN (IF SingleRuntimeChild(el, o) # <<>> THEN Leaves(SingleRuntimeChild(el, o)[1]) ELSE <<>>)
      ELSE KidsOrder(el.children, o, hoist, 1))

LazyOrder(el, o, hoist) ==
  IF ~IsComponentHost(el.tag, o) \/ SingleRuntimeChild(el, o) # <<>> THEN <<>>
  ELSE KidsOrder(el.children, o, hoist, 1)

(* how the runtime observer names the owner of a slot frame: the vnode's type *)
OwnerTag(tag) ==
  CASE tag.k = "comp" -> IF tag.bound THEN tag.rv.id ELSE tag.name
    [] tag.k = "member" -> tag.rv.id
    [] tag.k = "custom" -> IF tag.bound THEN tag.rv.id ELSE tag.name
    [] OTHER -> "?"

(* all component elements of a tree, reached through eager or lazy children *)
RECURSIVE Components(_, _), ComponentsOfKids(_, _, _)
ComponentsOfKids(cs, o, i) ==
  IF i > Len(cs) THEN {} ELSE (IF cs[i].k = "elem" THEN Components(cs[i].el, o) ELSE {}) \cup ComponentsOfKids(cs, o, i + 1)
Components(el, o) == (IF IsComponentHost(el.tag, o) THEN {el} ELSE {}) \cup ComponentsOfKids(el.children, o, 1)

(* leaves with unconstrained position: evaluated exactly once per evaluation of their element *)
RECURSIVE FreeOfAttrs(_, _)
DirLeaves(val) ==
  CASE val.k = "expr" -> AllLeaves(val.e)
    [] val.k = "arr" -> AllLeaves(val.v) \o (IF val.hasArg THEN AllLeaves(val.arg) ELSE <<>>)
    [] OTHER -> <<>>
FreeOfAttrs(attrs, i) ==
  IF i > Len(attrs) THEN <<>>
  ELSE LET a == attrs[i] IN
       (CASE a.k \in {"dir", "vhtml", "vtext"} -> DirLeaves(a.val)
          [] a.k = "vslots" -> AllLeaves(a.e)
          [] OTHER -> <<>>) \o FreeOfAttrs(attrs, i + 1)
TagLeaves(tag) == IF tag.k = "member" THEN <<tag.obj \o "." \o tag.prop>> ELSE <<>>

(* free leaves of an element and of the descendants evaluated eagerly with it: <<id, min, max>> *)
RECURSIVE EagerFree(_, _), EagerFreeKids(_, _, _), ModelFree(_, _)
Once(ids) == [i \in 1..Len(ids) |-> <<ids[i], 1, 1>>]
ModelFree(attrs, i) ==
  IF i > Len(attrs) THEN <<>>
  ELSE (IF attrs[i].k = "vmodel"
        THEN (IF IsProbe(attrs[i].target) THEN << <<LeafId(attrs[i].target), 1, 1>> >> ELSE <<>>)
             \o (IF attrs[i].argform = "computed2" /\ ~IsTrivial(attrs[i].argexpr)
                 THEN [j \in 1..Len(AllLeaves(attrs[i].argexpr)) |-> <<AllLeaves(attrs[i].argexpr)[j], 1, 3>>] ELSE <<>>)
        ELSE <<>>) \o ModelFree(attrs, i + 1)
EagerFreeKids(cs, o, i) ==
  IF i > Len(cs) THEN <<>> ELSE (IF cs[i].k = "elem" THEN EagerFree(cs[i].el, o) ELSE <<>>) \o EagerFreeKids(cs, o, i + 1)
EagerFree(el, o) ==
  Once(TagLeaves(el.tag)) \o Once(FreeOfAttrs(el.attrs, 1)) \o ModelFree(ExpandVModels(el.attrs), 1)
  \o (IF IsComponentHost(el.tag, o) THEN <<>> ELSE EagerFreeKids(el.children, o, 1))

(* trivial observable leaves anywhere in the tree: their reads carry no demand *)
RECURSIVE TrivialOf(_), TrivialOfKids(_, _), TrivialOfAttrs(_, _)
TrivialOfAttrs(attrs, i) ==
  IF i > Len(attrs) THEN {}
  ELSE (CASE attrs[i].k \in {"plain", "ns"} /\ attrs[i].val.k = "expr" -> TrivialIds(attrs[i].val.e)
          [] attrs[i].k = "spread" -> TrivialIds(attrs[i].e)
          [] OTHER -> {}) \cup TrivialOfAttrs(attrs, i + 1)
TrivialOfKids(cs, i) ==
  IF i > Len(cs) THEN {}
  ELSE (CASE cs[i].k \in {"expr", "spread"} -> TrivialIds(cs[i].e)
          [] cs[i].k = "elem" -> TrivialOf(cs[i].el)
          [] OTHER -> {}) \cup TrivialOfKids(cs, i + 1)
TrivialOf(el) == TrivialOfAttrs(el.attrs, 1) \cup TrivialOfKids(el.children, 1)
=============================================================================
