--------------------------------- MODULE Hints ---------------------------------
(***************************************************************************)
(* C13 / C12 — patch flags, dynamic-prop lists and slot flags are *hints*:  *)
(* every clause is an upper bound on optimism; a more conservative hint    *)
(* (no flag, FULL_PROPS, `_` = 2) is always accepted.                       *)
(***************************************************************************)
EXTENDS Denote

TEXT == 1  CLASS == 2  STYLE == 4  PROPS == 8  FULL_PROPS == 16  HYDRATE_EVENTS == 32  NEED_PATCH == 512

Bit(n, b) == (n \div b) % 2 = 1
FlagN(ov) == IF ov.flag.t = "num" THEN ov.flag.n ELSE 0
DynList(ov) == IF ov.dyn.t = "arr" THEN {ov.dyn.xs[i].s : i \in 1..Len(ov.dyn.xs)} ELSE {}
PresentKeys(ov) == IF ov.props.t = "obj" THEN {ov.props.es[i][1] : i \in 1..Len(ov.props.es)} ELSE {}

(* props (by name) whose value can differ between renders, per attribute *)
DynNamesOfAttr(a, o, host) ==
  CASE a.k \in {"plain", "ns"} ->
         IF a.val.k = "expr" /\ CanDiffer(a.val.e) /\ AttrKey(a) \notin {"key", "ref"}
            /\ ~(o.transformOn /\ a.k = "plain" /\ a.name \in {"on", "nativeOn"})
         THEN {AttrKey(a)} ELSE {}
    [] a.k = "vhtml" -> IF a.val.k = "expr" /\ CanDiffer(a.val.e) THEN {"innerHTML"} ELSE {}
    [] a.k = "vtext" -> IF a.val.k = "expr" /\ CanDiffer(a.val.e) THEN {"textContent"} ELSE {}
    [] a.k = "vmodel" /\ a.argform # "computed2" ->
         IF host THEN {VModelArgName(a), "onUpdate:" \o VModelArgName(a)} ELSE {}
    [] OTHER -> {}

RequiresFull(attrs, o) ==          \* spread, merged, or computed keys
  \E i \in 1..Len(attrs) :
     \/ attrs[i].k = "spread"
     \/ (o.transformOn /\ attrs[i].k = "plain" /\ attrs[i].name \in {"on", "nativeOn"})
     \/ (attrs[i].k = "vmodel" /\ attrs[i].argform = "computed2")

HasRefOrDirective(attrs, host) ==
  \E i \in 1..Len(attrs) : \/ (attrs[i].k = "plain" /\ attrs[i].name = "ref")
                           \/ attrs[i].k = "dir"
                           \/ (attrs[i].k = "vmodel" /\ ~host)

(* first violated clause of one vnode call ("" = sound) *)
PatchFlagWhy(el, ov, o) ==
  LET host  == IsComponentHost(el.tag, o)
      attrs == ExpandVModels(el.attrs)
      n     == FlagN(ov)
      names == UNION {DynNamesOfAttr(attrs[i], o, host) : i \in 1..Len(attrs)}
      covered(name) ==
        IF name = "class" /\ ~host THEN Bit(n, CLASS)
        ELSE IF name = "style" /\ ~host THEN Bit(n, STYLE)
        ELSE Bit(n, PROPS) /\ name \in DynList(ov)
      elemModelCovered ==      \* v-model on an element: whichever listener key is present must be listed
        \A i \in 1..Len(attrs) : (attrs[i].k = "vmodel" /\ ~host /\ attrs[i].argform # "computed2") =>
           \E k \in {"onUpdate:modelValue", "onUpdate:" \o VModelArgName(attrs[i])} :
              k \in PresentKeys(ov) /\ k \in DynList(ov) /\ Bit(n, PROPS)
  IN
  IF ~o.optimize THEN (IF ov.flag.t # "none" \/ ov.dyn.t # "none" THEN "hints-without-optimize" ELSE "")
  ELSE IF ov.flag.t = "num" /\ n <= 0 THEN "non-positive-flag"
  ELSE IF ov.flag.t \notin {"num", "none"} THEN "flag-not-a-number"
  ELSE IF ~(DynList(ov) \subseteq PresentKeys(ov)) THEN "dynamic-prop-not-present"
  ELSE IF HasRefOrDirective(attrs, host) /\ n = HYDRATE_EVENTS THEN "hydration-bit-alone-with-ref-or-directive"
  ELSE IF n > 0 /\ ~Bit(n, FULL_PROPS) THEN
       (IF RequiresFull(attrs, o) THEN "spread-merged-or-computed-without-full-props"
        ELSE IF \E name \in names : ~covered(name) THEN "dynamic-prop-not-covered:" \o (CHOOSE name \in names : ~covered(name))
        ELSE IF ~elemModelCovered THEN "dynamic-prop-not-covered:onUpdate"
        ELSE "")
  ELSE ""

(* ---- slot flags ---- *)
RECURSIVE BoundIdentBelow(_)
BoundIdentBelow(cs) ==      \* a direct child that is a file-bound identifier, here or reached by direct JSX nesting
  \E i \in 1..Len(cs) :
     \/ (cs[i].k \in {"expr", "spread"} /\ Peel(cs[i].e).k = "ident" /\ Peel(cs[i].e).bound)
     \/ (cs[i].k = "elem" /\ BoundIdentBelow(cs[i].el.children))

SlotFlagWhy(el, ov, o) ==
  IF ov.children.t # "slots" THEN ""
  ELSE IF ~o.optimize THEN (IF ov.children.flag.t # "none" THEN "slot-flag-without-optimize" ELSE "")
  ELSE IF ov.children.flag.t = "none" THEN
         (IF el.children = <<>> \/ (Len(el.children) = 1 /\ el.children[1].k = "expr"
                                    /\ Peel(el.children[1].e).k \in {"ident", "call", "arrow", "fnexpr"})
          THEN "" ELSE "slot-object-without-flag")      \* pass-through values are the user's objects
  ELSE IF ov.children.flag.t # "num" \/ ov.children.flag.n \notin {1, 2} THEN "slot-flag-not-1-or-2"
  ELSE IF BoundIdentBelow(el.children) /\ ov.children.flag.n # 2 THEN "stable-slot-flag-with-bound-identifier-child"
  ELSE ""

(* ---- walk the abstract element and the observed vnode together ---- *)
VNodesOf(xs) == SelectSeq(xs, LAMBDA v : v.t = "vnode")
ElemsOf(cs)  == SelectSeq(cs, LAMBDA ch : ch.k = "elem")

ObservedKids(ov) ==       \* the vnodes among the children the host received (first invocation of the default slot)
  IF ov.children.t = "arr" THEN VNodesOf(ov.children.xs)
  ELSE IF ov.children.t = "slots" /\ ObjHas(ov.children.es, "default")
          /\ ObjGet(ov.children.es, "default").t = "thunk"
          /\ ObjGet(ov.children.es, "default").calls # <<>>
          /\ ObjGet(ov.children.es, "default").calls[1].t = "arr"
       THEN VNodesOf(ObjGet(ov.children.es, "default").calls[1].xs)
  ELSE <<>>

RECURSIVE HintsWhy(_, _, _), HintsWhyKids(_, _, _, _)
HintsWhyKids(es, ovs, o, i) ==
  IF i > Len(es) \/ i > Len(ovs) THEN ""
  ELSE LET w == HintsWhy(es[i].el, ovs[i], o) IN IF w # "" THEN w ELSE HintsWhyKids(es, ovs, o, i + 1)
HintsWhy(el, ov, o) ==
  IF ov.t # "vnode" THEN ""
  ELSE LET w1 == IF el.tag.k = "frag" THEN "" ELSE PatchFlagWhy(el, ov, o)
           w2 == SlotFlagWhy(el, ov, o) IN
       IF w1 # "" THEN w1 ELSE IF w2 # "" THEN w2
       ELSE HintsWhyKids(ElemsOf(el.children), ObservedKids(ov), o, 1)

(* ---- C12: erase the hints from an observed canonical value ---- *)
RECURSIVE EraseHints(_)
EraseSeq(xs) == [i \in 1..Len(xs) |-> EraseHints(xs[i])]
EraseEntries(es) == [i \in 1..Len(es) |-> <<es[i][1], EraseHints(es[i][2])>>]
EraseHints(v) ==
  CASE v.t = "vnode" -> [v EXCEPT !.flag = None, !.dyn = None, !.props = EraseHints(@), !.children = EraseHints(@),
                                  !.type = EraseHints(@)]
    [] v.t = "slots" -> [v EXCEPT !.flag = None, !.es = EraseEntries(@)]
    [] v.t = "thunk" -> [v EXCEPT !.calls = EraseSeq(@)]
    [] v.t = "arr"   -> [v EXCEPT !.xs = EraseSeq(@)]
    [] v.t = "obj"   -> [v EXCEPT !.es = EraseEntries(@)]
    [] OTHER -> v
=============================================================================
