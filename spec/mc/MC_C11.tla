-------------------------------- MODULE MC_C11 --------------------------------
(***************************************************************************)
(* C11 — elements whose every attribute, spread, child and directive leaf  *)
(* is observable (logging getters, member accesses, calls), with unique    *)
(* probe ids derived from the position, across hosts and options.          *)
(***************************************************************************)
EXTENDS Source, Json, IOUtils, SequencesExt

CONSTANTS MaxAttrs, MaxKids, AttrKinds, KidKinds, OptCombos,
          AttrKinds3, KidKinds3      \* alphabets for the length-3 attribute sequences (with at most one child)

S(cp) == Str(cp)
N(i) == ToString(i)

AttrAt(kind, i, pre) ==
  CASE kind = "call"    -> Plain("p" \o N(i), AvExpr(Call(pre \o "fa" \o N(i), Num(i))))
    [] kind = "member"  -> Plain("q" \o N(i), AvExpr(Member(pre \o "oa", "m" \o N(i), Num(10 + i))))
    [] kind = "trivial" -> Plain("t" \o N(i), AvExpr(Ident(pre \o "ti" \o N(i), FALSE, Num(20 + i))))
    [] kind = "class"   -> Plain("class", AvExpr(Call(pre \o "fc" \o N(i), S(<<99, 48 + i>>))))
    [] kind = "style"   -> Plain("style", AvExpr(Call(pre \o "fs" \o N(i), Obj(<< <<"top", Num(i)>> >>))))
    [] kind = "onClick" -> Plain("onClick", AvExpr(Call(pre \o "fh" \o N(i), Fn("h" \o N(i)))))
    [] kind = "spread"  -> Spread(Call(pre \o "fsp" \o N(i), Obj(<< <<"id", Num(i)>>, <<"class", S(<<115>>)>> >>)))
    [] kind = "spreadid" -> Spread(Ident(pre \o "spi" \o N(i), FALSE, Obj(<< <<"id", Num(i)>> >>)))
    [] kind = "objlit"  -> Plain("o" \o N(i), AvExpr(ObjLit(<< <<"a", Call(pre \o "fo" \o N(i), Num(1))>>,
                                                              <<"b", Member(pre \o "ob", "n" \o N(i), Num(2))>> >>)))
    [] kind = "on"      -> Plain("on", AvExpr(ObjLit(<< <<"click", Call(pre \o "fon" \o N(i), Fn("hon" \o N(i)))>> >>)))
    [] kind = "dir"     -> Dir("kebab", <<"foo">>, "", <<>>, AvExpr(Call(pre \o "fd" \o N(i), Num(i))))
    [] kind = "dirarr"  -> Dir("kebab", <<"bar">>, "", <<>>, AvArr(Call(pre \o "fdv" \o N(i), Num(i)), TRUE,
                                                                  Call(pre \o "fda" \o N(i), S(<<97>>)), FALSE, <<>>))
    [] kind = "vhtml"   -> VHtml(AvExpr(Call(pre \o "fv" \o N(i), S(<<104>>))))
    [] kind = "vmodel"  -> VModel(Member(pre \o "om", "t" \o N(i), S(<<49>>)), "none", "", Undefined, "none", <<>>)
    [] kind = "vmodelc" -> VModel(Member(pre \o "om", "t" \o N(i), S(<<49>>)), "computed2", "",
                                  Call(pre \o "fan" \o N(i), StrS(<<100, 121, 110>>, "dyn")), "array", <<"trim">>)
    [] kind = "vmodels" -> VModels(<<VModel(Member(pre \o "om", "u" \o N(i), S(<<50>>)), "none", "", Undefined, "none", <<>>),
                                      VModel(Member(pre \o "om", "w" \o N(i), S(<<51>>)), "str2", "title", Undefined, "array", <<"trim">>)>>)
    [] kind = "vslots"  -> VSlots(Call(pre \o "fvs" \o N(i), Obj(<< <<"foo", FnR("vsf" \o N(i), S(<<118>>))>> >>)))
    [] kind = "vslotso" -> VSlots(ObjLit(<< <<"foo", Call(pre \o "fvo" \o N(i), FnR("vso" \o N(i), S(<<118>>)))>> >>))
    [] kind = "static"  -> Plain("s" \o N(i), AvStr(<<"a">>))

Inner(pre) == Elem(TagHtml("span"), <<AttrAt("call", 1, pre)>>, <<ChExpr(Call(pre \o "gk", Num(5)))>>)
InnerComp(pre) == Elem(TagComp("Baz" \o pre, FALSE, Undef), <<AttrAt("member", 1, pre)>>,
                       <<ChExpr(Call(pre \o "gk", Num(6))), ChText(<<"a">>)>>)

KidAt(kind, j) ==
  CASE kind = "call"    -> ChExpr(Call("gc" \o N(j), Num(j)))
    [] kind = "member"  -> ChExpr(Member("oc", "k" \o N(j), Num(30 + j)))
    [] kind = "trivial" -> ChExpr(Ident("ci" \o N(j), FALSE, PVNode("pv" \o N(j))))
    [] kind = "text"    -> ChText(<<"a">>)
    [] kind = "spread"  -> ChSpread(Call("gs" \o N(j), Arr(<<Num(j)>>)))
    [] kind = "spreadarr" -> ChSpread(ArrLit(<<Call("gsa" \o N(j), Num(j)), Member("oc", "y" \o N(j), Num(40 + j))>>))
    [] kind = "objlit"  -> ChExpr(ObjLit(<< <<"default", Arrow(Lit(Num(1)))>>, <<"bar", Call("gob" \o N(j), FnR("ob" \o N(j), Num(2)))>> >>))
    [] kind = "parencall" -> ChExpr(Wrap("paren", Call("gpc" \o N(j), Num(j))))          \* {(gpc())}: once, like the bare call
    [] kind = "callfn"  -> ChExpr(Call("gcf" \o N(j), FnR("cf" \o N(j), Arr(<<Num(j)>>))))       \* a call whose value is a slot function
    [] kind = "identfn" -> ChExpr(Ident("cif" \o N(j), FALSE, FnR("if" \o N(j), Arr(<<Num(j)>>))))
    [] kind = "elem"    -> ChElem(Inner("e" \o N(j)))
    [] kind = "comp"    -> ChElem(InnerComp("k" \o N(j)))
    [] kind = "direlem" -> ChElem(Elem(TagHtml("span"), <<Dir("kebab", <<"show">>, "", <<>>, AvExpr(Call("dsv" \o N(j), Bool(TRUE))))>>,
                                       <<ChExpr(Call("dgk" \o N(j), Num(7)))>>))
    [] kind = "arr"     -> ChExpr(ArrLit(<<Call("ga" \o N(j), Num(1)), Member("oc", "z" \o N(j), Num(2))>>))

Hosts == {TagHtml("div"), TagComp("Foo", TRUE, Opq("vFoo")), TagComp("Bar", FALSE, Undef), TagFrag}

AttrSeqs == UNION {{[i \in 1..m |-> AttrAt(ks[i], i, "")] : ks \in [1..m -> AttrKinds]} : m \in 0..MaxAttrs}
KidSeqs  == UNION {{[j \in 1..m |-> KidAt(ks[j], j)] : ks \in [1..m -> KidKinds]} : m \in 0..MaxKids}

NamesOK(as) ==       \* only class / style / listeners / spreads may repeat (and `on` objects under transformOn, OnOK)
  /\ \A i, j \in 1..Len(as) : i < j /\ as[i].k = as[j].k /\ as[i].k \in {"vhtml", "vmodel", "vmodels", "vslots"} => FALSE
  /\ \A i, j \in 1..Len(as) : ~(as[i].k = "vmodels" /\ as[j].k = "vmodel")      \* the list already binds modelValue
ValidFor(h, as) == (h.k = "frag" => as = <<>>) /\ NamesOK(as)
                   /\ (h.k # "comp" => \A i \in 1..Len(as) : as[i].k # "vslots")       \* v-slots is for components
                   /\ \A vi, vj \in 1..Len(as) : vi < vj => ~(as[vi].k = "vslots" /\ as[vj].k = "vslots")
                   /\ \A i, j \in 1..Len(as) : i < j => ~(as[i].k \in {"vmodel", "vhtml"} /\ as[j].k = as[i].k)

(* a repeated `on` attribute is a repeated listener *object* only under transformOn; without it `on` is a     *)
(* plain prop name, and repeated plain names are outside the domain (DESIGN 6.0) - the code folds every name *)
(* starting with "on" into an array at the first position, like the Babel plugin                             *)
OnOK(as, ton) == ton \/ \A i, j \in 1..Len(as) : i < j => ~(as[i].k = "plain" /\ as[j].k = "plain" /\ as[i].name = "on" /\ as[j].name = "on")

Opt(mp, eos, ton) == [DefaultOpts EXCEPT !.mergeProps = mp, !.enableObjectSlots = eos, !.transformOn = ton, !.optimize = TRUE]

Combo(n) ==      \* <<mergeProps, enableObjectSlots, transformOn>>
  CASE n = "TTT" -> <<TRUE, TRUE, TRUE>> [] n = "FFF" -> <<FALSE, FALSE, FALSE>>
    [] n = "TFF" -> <<TRUE, FALSE, FALSE>> [] n = "FTT" -> <<FALSE, TRUE, TRUE>>
AttrSeqs3 == {[i \in 1..3 |-> AttrAt(ks[i], i, "")] : ks \in [1..3 -> AttrKinds3]}
KidSeqs3  == {<<>>} \cup {<<KidAt(k, 1)>> : k \in KidKinds3}

(* the product is enumerated by index arithmetic over small sequences (building it as one big set of nested *)
(* records makes TLC sort ~10^5 deep records)                                                              *)
HostsQ == SetToSeq(Hosts)
AttrQ  == SetToSeq(AttrSeqs)
KidQ   == SetToSeq(KidSeqs)
OptQ   == SetToSeq(OptCombos)
Attr3Q == SetToSeq(AttrSeqs3)
Kid3Q  == SetToSeq(KidSeqs3)
Host3Q == SetToSeq(Hosts \ {TagFrag})

NA == Len(HostsQ) * Len(AttrQ) * Len(KidQ) * Len(OptQ)
NB == Len(Host3Q) * Len(Attr3Q) * Len(Kid3Q) * Len(OptQ)

Digit(n, base) == (n % base) + 1
RawA(n) ==       \* n in 0..NA-1
  LET o == Digit(n, Len(OptQ))                                  n1 == n \div Len(OptQ)
      k == Digit(n1, Len(KidQ))                                 n2 == n1 \div Len(KidQ)
      a == Digit(n2, Len(AttrQ))                                n3 == n2 \div Len(AttrQ)
      h == Digit(n3, Len(HostsQ))
  IN [tag |-> HostsQ[h], attrs |-> AttrQ[a], kids |-> KidQ[k], oc |-> OptQ[o]]
RawB(n) ==
  LET o == Digit(n, Len(OptQ))                                  n1 == n \div Len(OptQ)
      k == Digit(n1, Len(Kid3Q))                                n2 == n1 \div Len(Kid3Q)
      a == Digit(n2, Len(Attr3Q))                               n3 == n2 \div Len(Attr3Q)
      h == Digit(n3, Len(Host3Q))
  IN [tag |-> Host3Q[h], attrs |-> Attr3Q[a], kids |-> Kid3Q[k], oc |-> OptQ[o]]

(* v-slots (a call / an object literal with a call inside) beside every kind of single child, on component hosts *)
VSlotRaw == SetToSeq({[tag |-> h, attrs |-> as, kids |-> ks, oc |-> oc] :
                        h \in {TagComp("Foo", TRUE, Opq("vFoo")), TagComp("Bar", FALSE, Undef)},
                        as \in {<<AttrAt("vslots", 1, "")>>, <<AttrAt("vslotso", 1, "")>>, <<AttrAt("call", 1, ""), AttrAt("vslots", 2, "")>>,
                                 <<AttrAt("vslotso", 1, ""), AttrAt("call", 2, "")>>},
                        ks \in {<<>>} \cup {<<KidAt(k, 1)>> : k \in {"objlit", "call", "trivial", "text", "elem", "arr", "callfn", "identfn"}}
                                 \cup {<<KidAt("call", 1), KidAt("text", 2)>>},
                        oc \in OptCombos})
RawSeq == SelectSeq([n \in 1..(NA + NB) |-> IF n <= NA THEN RawA(n - 1) ELSE RawB(n - NA - 1)],
                    LAMBDA r : ValidFor(r.tag, r.attrs) /\ OnOK(r.attrs, Combo(r.oc)[3]))
          \o VSlotRaw

CaseSeq ==
  [i \in 1..Len(RawSeq) |->
     [case |-> "C11-" \o ToString(i), prop |-> "C11",
      opts |-> Opt(Combo(RawSeq[i].oc)[1], Combo(RawSeq[i].oc)[2], Combo(RawSeq[i].oc)[3]),
      items |-> << [k |-> "export_jsx", name |-> "s1", ctx |-> "fn",
                    elem |-> Elem(RawSeq[i].tag, RawSeq[i].attrs, RawSeq[i].kids)] >>]]

ASSUME PrintT(<<"CASES", Len(CaseSeq)>>)
ASSUME ndJsonSerialize(IOEnv.CASES_OUT, CaseSeq)
VARIABLE x
Init == x = 0
Next == x' = x
=============================================================================
