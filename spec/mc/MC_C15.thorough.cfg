INIT Init
NEXT Next
