CONSTANTS
  TreeDepth = 1
SPECIFICATION Spec
VIEW view
INVARIANTS StackBalancedAtEnd DepthBounded FlagSoundAtPop NoFlagsWithoutOptimize PushPopMatched
