CONSTANTS
  TreeDepth = 2
SPECIFICATION Spec
VIEW view
INVARIANTS StackBalancedAtEnd DepthBounded FlagSoundAtPop NoFlagsWithoutOptimize PushPopMatched
