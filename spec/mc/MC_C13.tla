-------------------------------- MODULE MC_C13 --------------------------------
(* C13 — enumeration of the attribute sequences / component trees of C13Domain.tla as cases; every   *)
(* attribute case carries what AttrsFold.tla predicts for the `attrs_done` hook of its element.       *)
EXTENDS C13Domain, Json, IOUtils

CaseSeq ==
  LET raw == SetToSeq(AttrCases \cup TreeCases) \o SetToSeq(SpreadOffCases) IN
  [i \in 1..Len(raw) |->
     [case |-> "C13-" \o ToString(i), prop |-> "C13", opts |-> raw[i].opts, kind |-> raw[i].kind,
      slotflags |-> IF raw[i].kind = "tree" THEN PredictSlotFlags(raw[i].elem, raw[i].opts) ELSE <<>>,
      fold |-> IF raw[i].kind = "attrs" /\ raw[i].elem.attrs # <<>> THEN <<Predict(raw[i].elem, raw[i].opts)>> ELSE <<>>,
      items |-> << [k |-> "export_jsx", name |-> "s1", ctx |-> "module", elem |-> raw[i].elem] >>]]

ASSUME PrintT(<<"CASES", Len(CaseSeq)>>)
ASSUME ndJsonSerialize(IOEnv.CASES_OUT, CaseSeq)
VARIABLE x
Init == x = 0
Next == x' = x
=============================================================================
