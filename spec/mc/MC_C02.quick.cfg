CONSTANTS
  MaxText = 3
  MaxTextPos = 2
  MaxChildren = 2
  Alphabet = {"sp", "tab", "lf", "cr", "crlf", "nbsp", "ideo", "ls", "a", "b", "amp", "nbspE", "lfE"}
INIT Init
NEXT Next
