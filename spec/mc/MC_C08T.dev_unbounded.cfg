CONSTANTS
  Names = {"P", "Q", "R"}
  Root = "P"
  MaxDepth = 8
  StackLimit = 40
  Bounded = FALSE
SPECIFICATION Spec
VIEW view
INVARIANTS DepthBounded NoOverflow
