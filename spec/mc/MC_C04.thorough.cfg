CONSTANTS
  Pairs = TRUE
INIT Init
NEXT Next
