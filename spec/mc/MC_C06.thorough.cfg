CONSTANTS
  Devs = {}
  EosChoices = {TRUE}
  MaxItems = 2
  MaxBody = 1
  Depth = 2
  SiteKinds = {"plain", "call", "ident"}
  ItemKinds = {"assign", "fn", "arrow", "fnparam", "classfield", "block", "arrowparam"}
INIT Init
NEXT Next
VIEW view
INVARIANTS ScopeOK NoDuplicateDecl NoLeak DeclsUsed HelperIffNeeded FramesBalanced TargetFresh CaptureOnlyOwn CaptureWhenOwn Emit
