INIT Init
NEXT Next
