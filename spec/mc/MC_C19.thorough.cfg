CONSTANTS
  Placements = {"before", "after", "exported_before", "exported_after", "scoped", "scoped_shadowing"}
INIT Init
NEXT Next
