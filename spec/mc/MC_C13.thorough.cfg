CONSTANTS
  MaxAttrs = 2
  Names3 = {"class", "ref", "onFoo", "spread", "dir"}
  TreeDepth = 2
INIT Init
NEXT Next
