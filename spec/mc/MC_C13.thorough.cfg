CONSTANTS
  MaxAttrs = 2
  Names3 = {"class", "ref", "onFoo", "spread", "dir"}
  WithInput = TRUE
  TreeDepth = 1
INIT Init
NEXT Next
