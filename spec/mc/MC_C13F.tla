-------------------------------- MODULE MC_C13F --------------------------------
(* Model checking of AttrsFold.tla: the fold is stepped attribute by attribute over every sequence of  *)
(* C13Domain; bookkeeping invariants hold in every state and, when the fold is complete, the model's   *)
(* own flags satisfy the soundness clauses of the property (FlagSoundModel).                           *)
EXTENDS C13Domain

VARIABLES cs, i, st
vars == <<cs, i, st>>
Attrs == ExpandVModels(cs.elem.attrs)
Host == IsComponentHost(cs.elem.tag, cs.opts)

Init == cs \in AttrCases /\ i = 0 /\ st = FoldInit
StepAttr == /\ i < Len(Attrs) /\ st' = Step(st, Attrs[i + 1], cs.opts, Host) /\ i' = i + 1 /\ UNCHANGED cs
Next == StepAttr
Spec == Init /\ [][Next]_vars

Complete == i = Len(Attrs)
AgreesWithOperator == Complete => st = Fold(cs.elem.attrs, cs.opts, Host)       \* the machine and the operator form are one thing
Sound == Complete => FlagSoundModel(cs.elem, cs.opts)
DynNamesDistinct == \A a, b \in 1..Len(st.dyn) : a # b => st.dyn[a] # st.dyn[b]
Monotone == [][/\ (st.hasDynamicKeys => st'.hasDynamicKeys) /\ (st.hasRef => st'.hasRef)
              /\ Len(st.dyn) <= Len(st'.dyn) /\ st.directives <= st'.directives]_vars
NeverNegative == FlagsOf(st) >= 0
=============================================================================
