-------------------------------- MODULE MC_C10 --------------------------------
(***************************************************************************)
(* C10 — independence from unrelated code.  Ordered (prefix, statement,    *)
(* suffix) triples: the statement ranges over JSX expressions whose        *)
(* lowering consults visitor state (Fragment import table, slot counter,   *)
(* pending declarations, assignment target, slot-flag stack), the prefix / *)
(* suffix over the distractors the property lists.  Every triple is        *)
(* emitted twice — the statement alone and inside the composed module —    *)
(* and Judge_C10 compares the two recorded executions.                     *)
(***************************************************************************)
EXTENDS Visitor, Source, Json, IOUtils

CONSTANTS MaxPrefix, MaxSuffix

S(cp) == Str(cp)
(* statements under test: <<tag for the id, element, references-a?>> *)
Statements == {
  <<"fragtag", Elem(TagFragmentName, <<>>, <<ChExpr(Ident("items", FALSE, Arr(<<PVNode("i1")>>)))>>), FALSE>>,
  <<"frag",    Elem(TagFrag, <<>>, <<ChText(<<"a">>), ChExpr(Ident("x1", FALSE, Num(1)))>>), FALSE>>,
  <<"call",    Elem(TagComp("C", FALSE, Undef), <<>>, <<ChExpr(Call("f", PVNode("pvf")))>>), FALSE>>,
  <<"ident",   Elem(TagComp("A", FALSE, Undef), <<>>, <<ChExpr(Ident("a", TRUE, PVNode("pva")))>>), TRUE>>,
  <<"unbound", Elem(TagComp("U", FALSE, Undef), <<>>, <<ChExpr(Ident("ub", FALSE, S(<<115>>)))>>), FALSE>>,
  <<"nested",  Elem(TagComp("N", FALSE, Undef), <<Plain("id", AvExpr(Ident("u1", FALSE, Num(7))))>>,
                    <<ChElem(Elem(TagComp("M", FALSE, Undef), <<>>, <<ChExpr(Call("g", PVNode("pvg")))>>)), ChText(<<"b">>)>>), FALSE>>,
  <<"keep",    Elem(TagKeepAlive, <<>>, <<ChExpr(Ident("k1", FALSE, PVNode("pk")))>>), FALSE>>,
  <<"model",   Elem(TagHtml("input"), <<VModel(Ident("m1", TRUE, S(<<49>>)), "none", "", Undefined, "none", <<>>)>>, <<>>), FALSE>>,
  <<"twocalls", Elem(TagHtml("div"), <<>>, <<ChElem(Elem(TagComp("P", FALSE, Undef), <<>>, <<ChExpr(Call("p1", PVNode("pp1")))>>)),
                                              ChElem(Elem(TagComp("Q", FALSE, Undef), <<>>, <<ChExpr(Call("q1", PVNode("pq1")))>>))>>), FALSE>>,
  (* not a JSX element: a typed defineComponent call under resolveType - its augmentation consults what the   *)
  (* visitor remembers of the user's imports from 'vue' (the element is a placeholder, the site kind is "dc") *)
  <<"divx",    Elem(TagHtml("div"), <<>>, <<ChExpr(Ident("x1", FALSE, Num(1)))>>), FALSE>>,       \* an element: its child list is an array, whatever `o2.div` was
  <<"memberdiv", Elem(TagMember("o2", "div", Opq("vo2div")), <<>>, <<ChText(<<"a">>)>>), FALSE>>,
  <<"dc",      Elem(TagHtml("div"), <<>>, <<>>), FALSE>>
}

(* distractors: <<item, elements of its sites in order, writes-a?>> *)
DCall(n)  == Elem(TagComp("D" \o n, FALSE, Undef), <<>>, <<ChExpr(Call("df" \o n, PVNode("pd" \o n)))>>)
DIdent(n) == Elem(TagComp("E" \o n, FALSE, Undef), <<>>, <<ChExpr(Ident("a", TRUE, PVNode("pva")))>>)
DFrag(n)  == Elem(TagFrag, <<>>, <<ChExpr(Ident("y" \o n, FALSE, Num(2)))>>)
DMemberDiv(n) == Elem(TagMember("o2", "div", Opq("vo2div")), <<>>, <<ChText(<<"b">>)>>)       \* <o2.div>: a component whose last name is an HTML name
DDiv(n) == Elem(TagHtml("div"), <<>>, <<ChExpr(Ident("w" \o n, FALSE, Num(4)))>>)
DFragTag(n) == Elem(TagFragmentName, <<>>, <<ChExpr(Ident("z" \o n, FALSE, Num(3)))>>)
Distractors(n) == {
  <<Assign("a", PlainItem), <<>>, TRUE>>,
  <<Assign("a", Site("x", "x")), <<DIdent(n)>>, TRUE>>,
  <<Site("x", "x"), <<DCall(n)>>, FALSE>>,
  <<Site("x", "x"), <<DFrag(n)>>, FALSE>>,
  <<Site("x", "x"), <<DFragTag(n)>>, FALSE>>,
  <<Site("x", "x"), <<DMemberDiv(n)>>, FALSE>>,
  <<Site("x", "x"), <<DDiv(n)>>, FALSE>>,
  <<FnItem(<<Site("x", "x")>>), <<DCall(n)>>, FALSE>>,
  <<FnItem(<<>>), <<>>, FALSE>>,
  <<ArrowExpr(Site("x", "x")), <<DCall(n)>>, FALSE>>,
  <<ArrowBlock(<<Assign("a", PlainItem)>>), <<>>, TRUE>>,
  <<Block(<<Site("x", "x")>>), <<DCall(n)>>, FALSE>>,
  <<[k |-> "vueimport", names |-> <<"Fragment", "_Fragment">>], <<>>, FALSE>>,
  <<[k |-> "vueimport", names |-> <<"createVNode", "_createVNode">>], <<>>, FALSE>>,
  <<[k |-> "vueimport", names |-> <<"h", "h">>], <<>>, FALSE>>
}
DSeqs(lo, hi, tagp) == UNION {{[i \in 1..m |-> ds[i]] : ds \in [1..m -> Distractors(tagp)]} : m \in lo..hi}
 \* (sites of the i-th distractor get a distinct name suffix through renumbering below)

RECURSIVE ConcatSites(_, _)
ConcatSites(ds, i) == IF i > Len(ds) THEN <<>> ELSE ds[i][2] \o ConcatSites(ds, i + 1)
Items(ds) == [i \in 1..Len(ds) |-> ds[i][1]]
WritesA(ds) == \E i \in 1..Len(ds) : ds[i][3]

Numbered(els, offset) == [i \in 1..Len(els) |-> [id |-> "s" \o ToString(offset + i), kind |-> "elem", elem |-> els[i]]]

ImportsOf(ds) == {ds[i][1].names : i \in {j \in 1..Len(ds) : ds[j][1].k = "vueimport"}}
NoDupImport(p, q) ==      \* the same binding cannot be imported twice in one module (that is not a valid input)
  /\ ImportsOf(p) \cap ImportsOf(q) = {}
  /\ \A i, j \in 1..Len(p) : i < j /\ p[i][1].k = "vueimport" => p[i] # p[j]
  /\ \A i, j \in 1..Len(q) : i < j /\ q[i][1].k = "vueimport" => q[i] # q[j]
Triples == {<<p, s, q>> : p \in DSeqs(0, MaxPrefix, "p"), s \in Statements, q \in {q \in DSeqs(0, MaxSuffix, "q") : TRUE}}

(* distinct probe names for the two copies of one distractor kind in prefix and suffix *)
Opts == {[DefaultOpts EXCEPT !.optimize = opt] : opt \in {TRUE}}

CaseOf(t, o, composed, i) ==
  LET p == IF composed THEN t[1] ELSE <<>>
      q == IF composed THEN t[3] ELSE <<>>
      ps == ConcatSites(p, 1)  qs == ConcatSites(q, 1)
      dc == t[2][1] = "dc"
      sites == Numbered(ps, 0) \o <<[id |-> "stmt", kind |-> IF dc THEN "dc" ELSE "elem", elem |-> t[2][2]]>> \o Numbered(qs, Len(ps))
  IN [case |-> "C10-" \o ToString(i) \o (IF composed THEN "#composed" ELSE "#alone"), prop |-> "C10",
      opts |-> [o EXCEPT !.resolveType = dc], lang |-> IF dc THEN "tsx" ELSE "jsx",
      module |-> Items(p) \o <<Site("x", "x")>> \o Items(q), sites |-> sites,
      stmt |-> t[2][1], related |-> t[2][3] /\ (WritesA(t[1]) \/ WritesA(t[3]))]

CaseSeq ==
  LET raw == SetToSeq({<<t, o>> : t \in {t \in Triples : (t[1] # <<>> \/ t[3] # <<>>) /\ NoDupImport(t[1], t[3])}, o \in Opts}) IN
  [j \in 1..(2 * Len(raw)) |-> CaseOf(raw[(j + 1) \div 2][1], raw[(j + 1) \div 2][2], j % 2 = 0, (j + 1) \div 2)]

ASSUME PrintT(<<"CASES", Len(CaseSeq)>>)
ASSUME ndJsonSerialize(IOEnv.CASES_OUT, CaseSeq)
Init == InitWith({<<>>})
=============================================================================
