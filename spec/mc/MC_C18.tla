-------------------------------- MODULE MC_C18 --------------------------------
(***************************************************************************)
(* C18 — parameter defaults become runtime prop defaults.  Prop map        *)
(* { a?: string, b?: number, cb?: () => void, 'q-k'?: string, z?: boolean, *)
(*   u?: (() => void) | string, 'w'?: number, ['v']?: string }             *)
(* x default objects mixing literal / expression / shorthand / getter /    *)
(* method / async method / function value / quoted and computed-literal    *)
(* keys / extra keys, and the dynamic forms (identifier, spread, computed).*)
(***************************************************************************)
EXTENDS Source, Json, IOUtils, SequencesExt

S(cp) == Str(cp)
Entry(key, keyform, form, e) == [key |-> key, keyform |-> keyform, form |-> form, e |-> e]

ForA  == {<<>>, <<Entry("a", "ident", "lit", Lit(S(<<120>>)))>>, <<Entry("a", "ident", "expr", Ident("ua", FALSE, S(<<117>>)))>>,
          <<Entry("a", "ident", "shorthand", Ident("a", TRUE, S(<<115>>)))>>, <<Entry("a", "ident", "getter", Call("ga", S(<<103>>)))>>,
          <<Entry("a", "computed_lit", "lit", Lit(S(<<99>>)))>>, <<Entry("a", "computed_lit", "getter", Call("ga2", S(<<104>>)))>>, <<Entry("a", "str", "expr", ArrLit(<<Lit(Num(1))>>))>>}
ForB  == {<<>>, <<Entry("b", "ident", "lit", Lit(Num(7)))>>, <<Entry("b", "ident", "expr", Call("gb", Num(8)))>>}
ForCb == {<<>>, <<Entry("cb", "ident", "fn", Lit(Num(1)))>>, <<Entry("cb", "ident", "method", Lit(Num(2)))>>,
          <<Entry("cb", "ident", "async_method", Lit(Num(3)))>>,
          <<Entry("cb", "ident", "shorthand", Ident("cb", TRUE, FnR("dcb2", Num(5))))>>,     \* { cb } with cb a function in scope
          <<Entry("cb", "ident", "expr", Ident("fcb", FALSE, FnR("dcb", Num(4))))>>}
ForQ  == {<<>>, <<Entry("q-k", "str", "lit", Lit(S(<<113>>)))>>}
(* u?: (() => void) | string — a union that includes Function: Vue still calls a function default as a factory *)
ForU  == {<<>>, <<Entry("u", "ident", "expr", Ident("fu", FALSE, FnR("du", Num(5))))>>, <<Entry("u", "ident", "fn", Lit(Num(6)))>>}
(* 'w'?: number and ['v']?: string - keys *quoted / computed-literal in the type*, written in every spelling in the default *)
ForW  == {<<>>, <<Entry("w", "ident", "lit", Lit(Num(3)))>>, <<Entry("w", "ident", "shorthand", Ident("w", TRUE, Num(4)))>>,
          <<Entry("w", "ident", "getter", Call("gw", Num(5)))>>, <<Entry("w", "str", "lit", Lit(Num(6)))>>,
          <<Entry("w", "computed_lit", "expr", Call("gw2", Num(7)))>>}
ForV  == {<<>>, <<Entry("v", "ident", "expr", Ident("uv", FALSE, S(<<118>>)))>>, <<Entry("v", "str", "lit", Lit(S(<<86>>)))>>,
          <<Entry("v", "ident", "getter", Call("gv", S(<<103, 118>>)))>>}
Extra == {<<>>, <<Entry("nope", "ident", "lit", Lit(Num(0)))>>}

Statics == {[form |-> "static", entries |-> a \o b \o cb \o q \o x] : a \in ForA, b \in ForB, cb \in ForCb, q \in ForQ, x \in Extra}
           \cup {[form |-> "static", entries |-> a \o cb \o u] : a \in ForA, cb \in ForCb, u \in ForU \ {<<>>}}
           \cup {[form |-> "static", entries |-> a \o w \o v] : a \in ForA, w \in ForW, v \in ForV}

DynObj == Obj(<< <<"a", S(<<100>>)>>, <<"cb", FnR("dcb", Num(4))>>, <<"b", FnR("fb", Num(9))>>, <<"other", Num(1)>> >>)
Dynamics == {[form |-> "ident", entries |-> <<>>, dyn |-> DynObj],
             [form |-> "spread", entries |-> <<Entry("q-k", "str", "lit", Lit(S(<<113>>)))>>, dyn |-> DynObj],
             [form |-> "computed", entries |-> <<Entry("b", "ident", "lit", Lit(Num(7)))>>, dyn |-> S(<<97>>)],   \* { [kname]: 'dk', b: 7 } with kname = "a"
             [form |-> "call", entries |-> <<>>, dyn |-> DynObj]}

Raw == {[dyn |-> Null] @@ s : s \in Statics} \cup Dynamics

CaseSeq ==
  LET raw == SetToSeq(Raw) IN
  [i \in 1..Len(raw) |->
     [case |-> "C18-" \o ToString(i), prop |-> "C18", lang |-> "tsx", tscase |-> "defaults",
      form |-> raw[i].form, entries |-> raw[i].entries, dyn |-> raw[i].dyn,
      opts |-> [transformOn |-> FALSE, optimize |-> FALSE, mergeProps |-> TRUE, enableObjectSlots |-> TRUE, resolveType |-> TRUE,
                patterns |-> <<>>, pragma |-> ""]]]

ASSUME PrintT(<<"CASES", Len(CaseSeq)>>)
ASSUME ndJsonSerialize(IOEnv.CASES_OUT, CaseSeq)
VARIABLE x
Init == x = 0
Next == x' = x
=============================================================================
