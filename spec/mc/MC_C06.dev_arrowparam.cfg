CONSTANTS
  Devs = {"Dev_ArrowParamTempInBody"}
  EosChoices = {TRUE, FALSE}
  MaxItems = 2
  MaxBody = 1
  Depth = 1
  SiteKinds = {"plain", "call", "ident"}
  ItemKinds = {"assign", "fn", "arrow", "fnparam", "classfield", "block", "arrowparam"}
INIT Init
NEXT Next
VIEW view
INVARIANTS ScopeOK NoDuplicateDecl NoLeak DeclsUsed HelperIffNeeded FramesBalanced TargetFresh CaptureOnlyOwn CaptureWhenOwn
