CONSTANTS
  MaxAttrs = 2
  Names3 = {}
  WithInput = FALSE
  TreeDepth = 1
SPECIFICATION Spec
INVARIANTS AgreesWithOperator Sound DynNamesDistinct NeverNegative
PROPERTIES Monotone
