CONSTANTS
  Devs = {}
  EosChoices = {TRUE}
  MaxPrefix = 2
  MaxSuffix = 1
INIT Init
NEXT Next
