CONSTANTS
  Devs = {}
  MaxPrefix = 2
  MaxSuffix = 1
INIT Init
NEXT Next
