-------------------------------- MODULE MC_C07 --------------------------------
(***************************************************************************)
(* C07 / C08 — the grid of legal-but-unusual forms (and, for C08, the      *)
(* adversarial ones), each under every option combination.  The forms are  *)
(* source snippets: what is quantified over here is concrete syntax the    *)
(* abstract grammar of Source.tla deliberately does not cover.             *)
(***************************************************************************)
EXTENDS Source, Json, IOUtils, SequencesExt

CONSTANTS OptSets, Depths

Raw(text) == [k |-> "raw", text |-> text]

(* ---- C07: legal but unusual ---- *)
Unusual == {
  "export const s = <div a=<b/> />;", "export const s = <div a=<></> />;", "export const s = <C a=<b>{x}</b>>t</C>;",
  "export const s = <svg:rect/>;", "export const s = <svg:rect width=\"1\">t</svg:rect>;", "export const s = <xlink:a xlink:href=\"h\"/>;",
  "export const s = { m() { return <this.Comp/>; } };", "export const s = { m() { return <this.Comp a={1}>t</this.Comp>; } };",
  "export const s = <a.b/>;", "export const s = <a.b.c x=\"1\">{y}</a.b.c>;", "export const s = <a-b.c/>;",
  "export const s = <div v-foo />;", "export const s = <div v-show />;", "export const s = <input v-model />;",
  "export const s = <div v-html />;", "export const s = <div v-text />;", "export const s = <C v-slots />;", "export const s = <C v-models />;",
  "export const s = <div vFoo />;", "export const s = <div v-foo:arg />;", "export const s = <div v-foo_a_b />;",
  "export const s = <div v-foo={[]} />;", "export const s = <div v-foo={[,x]} />;", "export const s = <div v-foo={[...a]} />;",
  "export const s = <div v-foo={[x,,['m']]} />;", "export const s = <div v-foo={[x,...b]} />;", "export const s = <div v-foo={[x,[...m]]} />;",
  "export const s = <div v-foo={[x,['a-b']]} />;", "export const s = <div v-foo={[x,['1x']]} />;", "export const s = <div v-foo={[x,['']]} />;",
  "export const s = <div v-foo={[x,['a','a']]} />;", "export const s = <div v-foo={[x,[1,y]]} />;", "export const s = <div v-foo={[x,'a b']} />;",
  "export const s = <input v-model={[]} />;", "export const s = <input v-model={[,y]} />;", "export const s = <input v-model={[...a]} />;",
  "export const s = <C v-model={[x,['a-b']]} />;", "export const s = <input v-model={[x,['a-b']]} />;", "export const s = <C v-model={[x,'a-b']} />;",
  "export const s = <C v-model={[x,y,['1x']]} />;", "export const s = <input v-model=\"x\" />;", "export const s = <input v-model={f()} />;",
  "export const s = <C v-models={[]} />;", "export const s = <C v-models={x} />;", "export const s = <C v-models={[x]} />;",
  "export const s = <C v-models={[[x],,[y,'n']]} />;", "export const s = <C v-models={[...a]} />;", "export const s = <C v-models=\"x\" />;",
  "export const s = <div v-html={[]} />;", "export const s = <div v-html={[,x]} />;", "export const s = <div v-text={[...p]} />;",
  "export const s = <div v-html={[x]} />;", "export const s = <div v-text=\"a\" />;",
  "export const s = <C v-slots={f()} />;", "export const s = <C v-slots={[]}>t</C>;", "export const s = <C v-slots=\"x\">t</C>;",
  "export const s = <div {...{}} />;", "export const s = <div key />;", "export const s = <div ref=\"r\" />;",
  "export const s = <div>{...[]}</div>;", "export const s = <div>{/* c */}</div>;", "export const s = <>{}</>;",
  "export const s = <div on={x} nativeOn={{}} />;", "export const s = <div on />;", "export const s = <div on=\"x\" />;",
  "export const s = <div class />;", "export const s = <div style=\"a:b\" style={s} />;",
  "export const s = <div data-a-b=\"1\" aria-label=\"x\" a_b={1} $x={2} />;", "export const s = <div xml:lang=\"en\" a:b={x} />;",
  "export const s = <input type=<b/> v-model={x} />;", "export const s = <input type v-model={x} />;",
  "export const s = <C>{...a}</C>;", "export const s = <C>{}</C>;", "export const s = <C>{x}{/* c */}</C>;",
  "export const s = <Fragment key={1}>t</Fragment>;", "export const s = <KeepAlive include=\"a\"><C/></KeepAlive>;",
  "export default <div/>;", "export default () => <C>{f()}</C>;", "label: { break label; } export const s = <div/>;",

  "export function s() { try { throw 0; } catch (e) { return <A>{f()}</A>; } finally { x = <B>{g()}</B>; } }",
  "export class K { static { K.v = <A>{f()}</A>; } get g() { return <A>{h()}</A>; } m(p = <B>{q()}</B>) { return p; } }",
  "lbl: for (const i of [<A>{f()}</A>]) { switch (i) { case 1: x = <B>{g()}</B>; break lbl; default: y = <C>{h()}</C>; } }",
  "export const s = (a = <A>{f()}</A>, b = () => <B>{g()}</B>) => { if (a) return <C>{h()}</C>; else return <D>{k()}</D>; };",
  "export const s = ({ icon = <i/> }) => icon;", "export const s = ([a = <></>]) => a;", "export const s = ({ icon = <svg:use href=\"#i\"/> } = {}) => icon;",
  "export function s({ a = <b/>, ...rest }, [c = <C>{f()}</C>] = []) { return [a, c, rest]; }", "export const s = ({ [<k/>.key]: v }) => v;",
  "handlers[key(<Icon name=\"close\" />)] = fn;", "counts[(<div/>).type] += 1;", "(<><span/></>).children.length = 0;",
  "seen[list.map(i => <A>{f(i)}</A>).length] = true;", "({ a: [x = <b/>] } = props); [y[<i/>.k]] = z;",
  "export const s = <C>{function* () {}}</C>;", "export const s = <C>{class {}}</C>;", "export const s = <div>{`a${b}`}</div>;",
  "export const s = <div a='&quot;&amp;' b=\"\\n\">&lt;&#x41;</div>;",
  "export const s = <a href=\"C:\\users\\me\" sep=\"\\\" pattern=\"(a|b)\\1\" q='\\x' />;",
  "export const s = <C href=\"C:\\users\" {...o} />;", "export const s = <div v-foo=\"C:\\users\" />;",
  "export const s = <div v-html=\"a\\b\\u\" />;", "export const s = <div v-text=\"\\\" />;", "export const s = <div>C:\\users\\1</div>;",
  "export const s = <A.b-c />;", "export const s = <A.b-c.d>t</A.b-c.d>;",
  "export const s = async (id) => <C>{f(id)}</C>;",
  "export const s = async function (id) { return <C>{f(id)}</C>; };", "export const s = { async m(id) { return () => <C>{f(id)}</C>; } };"
}

Pragmas == {"/* @jsx h foo */", "/** @jsxImportSource vue */", "/* @jsx */", "// @jsxRuntime automatic", "/* @jsxFrag F */",
            "/* @jsx  h  */", "/** @jsx a.b */", "/* @jsx 1x */", "/* @jsx h\n * more */", "/* @jsximportsource x */", "/* not @jsx h */"}
PragmaBodies == {"export const s = <div/>;", "export const s = <><b/></>;"}

(* ---- C08: adversarial ---- *)
DirNames == {"v-foo", "v-show", "v-html", "v-text", "v-model", "v-models", "v-slots", "vFoo", "v-model:a", "v-foo:a_b",
             "v-été", "v-ürün:a_b", "vÉté", "v-日本"}     \* names whose first letter is not ASCII
AttrValues == {"", "=\"s\"", "={x}", "={}", "=<b/>", "=<></>", "={[]}", "={[,]}", "={[x, , ]}", "={[[]]}", "={{}}", "={[...a]}",
               "={[x, ...b]}", "={() => 1}", "={[x, [y], [z]]}", "={[x, 'a', 'b']}", "={[x, ['a'], ['b']]}"}
DirForms == {"export const s = <div " \o n \o v \o " />;" : n \in DirNames, v \in AttrValues}
            \cup {"export const s = <C " \o n \o v \o ">t</C>;" : n \in DirNames, v \in AttrValues}

RECURSIVE Nest(_, _)
Nest(n, inner) == IF n = 0 THEN inner ELSE "<div>" \o Nest(n - 1, inner) \o "</div>"
NestC(n, inner) == IF n = 0 THEN inner ELSE "<C>" \o Nest(n - 1, inner) \o "</C>"
DeepForms == {"export const s = " \o Nest(d, "<b/>") \o ";" : d \in Depths}
             \cup {"export const s = " \o NestC(d, "{f()}") \o ";" : d \in Depths}

Opt(name) ==
  CASE name = "default" -> DefaultOpts
    [] name = "optimize" -> [DefaultOpts EXCEPT !.optimize = TRUE]
    [] name = "all" -> [DefaultOpts EXCEPT !.optimize = TRUE, !.transformOn = TRUE, !.resolveType = TRUE, !.patterns = <<"^i-">>]
    [] name = "none" -> [DefaultOpts EXCEPT !.mergeProps = FALSE, !.enableObjectSlots = FALSE]
    [] name = "pragma" -> [DefaultOpts EXCEPT !.pragma = "h", !.optimize = TRUE]

AwaitYield == {"export const s = async () => <C>{await f()}</C>;", "export function* g() { yield <C>{yield 1}</C>; }",
               "export const s = async () => <C><b>{await f()}</b>t</C>;",
               \* lowered through a temporary (evaluated eagerly) with object slots on; moved into the slot function without
               "export const s = async (id) => <C>{render(await load(id))}</C>;"}

(* ---- C08: self- and mutually-referential type declarations, empty runtime types (resolveType) ---- *)
TsHead == "import { defineComponent, type SetupContext } from 'vue';\n"
TsForms == {
  "export const s = <T,>(x: T): any => <C>{f(x)}</C>;", "export const s = async <T,>(x: T): Promise<any> => <C>{f(x)}</C>;",
  \* JSX in places the resolveType machinery copies code from (parameter defaults) or walks over (options, setup body)
  "export const C = defineComponent((props: { icon?: any } = { icon: <i class=\"star\"/> }) => () => null);",
  "export const C = defineComponent((props: { icon?: any, n?: number } = withIcon(<><i/></>)) => () => null);",
  "export const C = defineComponent((props: { icon?: any } = { get icon() { return <b/> } }) => () => <div>{props.icon}</div>, { components: { K: <k/> } });",
  "export const C = defineComponent((props: { a?: string }, ctx: SetupContext<{ (e: 'x'): void }>) => () => <C onX={() => <i/>}/>);",
  "type P = P; export const C = defineComponent((props: P) => () => null);",
  "type P = Q; type Q = P; export const C = defineComponent((props: P) => () => null);",
  "type P = { a: string } & P; export const C = defineComponent((props: P) => () => null);",
  "interface A extends A { a: string } export const C = defineComponent((props: A) => () => null);",
  "interface A extends B { a: string } interface B extends A { b: string } export const C = defineComponent((props: A) => () => null);",
  "interface A extends B {} interface B extends C {} interface C extends A {} export const C1 = defineComponent((props: A) => () => null);",
  "type P = Partial<P>; export const C = defineComponent((props: P) => () => null);",
  "type P = Pick<P, 'a'>; export const C = defineComponent((props: P) => () => null);",
  "type P = P['a']; export const C = defineComponent((props: P) => () => null);",
  "type K = K; type T = { a: string }; export const C = defineComponent((props: Pick<T, K>) => () => null);",
  "type T = { a: T2 }; type T2 = T2 | string; export const C = defineComponent((props: T) => () => null);",
  "type T = { a: R }; type R = R[]; export const C = defineComponent((props: T) => () => null);",
  "type T = { a: NonNullable<R> }; type R = NonNullable<R>; export const C = defineComponent((props: T) => () => null);",
  "type E = E; export const C = defineComponent((props: { a?: string }, ctx: SetupContext<E>) => () => null);",
  "type N = N; export const C = defineComponent((props: { a?: string }, ctx: SetupContext<(e: N) => void>) => () => null);",
  "interface E extends E { (e: 'x'): void } export const C = defineComponent((props: {}, ctx: SetupContext<E>) => () => null);",
  "export const C = defineComponent((props: { a: NonNullable<null> }) => () => null);",
  "export const C = defineComponent((props: { a: NonNullable<undefined>, b: {}['x'] }) => () => null);",
  "type T = { x: string }; export const C = defineComponent((props: { a: T['nope'], b: [string][5] }) => () => null);",
  "export const C = defineComponent((props: { a: never, b: void, c: undefined }) => () => null);",
  "export const C = defineComponent((props: { [k: string]: number }) => () => null);",
  "export const C = defineComponent((props: { 1: string, [Symbol.iterator]: number, ['x' + 'y']: boolean }) => () => null);",
  "export const C = defineComponent();", "export const C = defineComponent(...[]);", "export const C = defineComponent(function () {}, ...[{}]);",
  "export const C = defineComponent(({ a }: { a: string } = { a: 'x' }, [c]: SetupContext<() => void>) => () => null);",
  "export const C = defineComponent(function (this: any, props: { a: string }) { return () => null });",
  "const { C } = { C: defineComponent((props: { a: string }) => () => null) }; export { C };"
}

(* ---- C08: one source under option sets that differ in every option, in one process: nothing may be remembered ---- *)
LeakTexts == {"export const s = <div class=\"a\" class={b} on={{ click: h }}><i-foo>{x}</i-foo><x-foo v-show={y}/><Widget>{f()}</Widget><>t</></div>;",
              "/* @jsx hh */ export const s = <ION-y a={1}><UiBox>{g}</UiBox><foo-bar {...p} /></ION-y>;"}
LeakOpts == {DefaultOpts,
             [DefaultOpts EXCEPT !.patterns = <<"^i-">>], [DefaultOpts EXCEPT !.patterns = <<"^x-">>, !.optimize = TRUE],
             [DefaultOpts EXCEPT !.patterns = <<"(?i)^ion-", "^widget$">>, !.transformOn = TRUE],
             [DefaultOpts EXCEPT !.patterns = <<"^Ui", "foo$">>, !.mergeProps = FALSE, !.enableObjectSlots = FALSE],
             [DefaultOpts EXCEPT !.patterns = <<"^widget$">>, !.pragma = "h"],
             [DefaultOpts EXCEPT !.patterns = <<"^foo-">>, !.optimize = TRUE, !.transformOn = TRUE, !.resolveType = TRUE],
             [DefaultOpts EXCEPT !.pragma = "k", !.optimize = TRUE]}

(* ---- C12: written for the optimize on / off comparison (values the transform might fold or rearrange under optimize) ---- *)
OptDiff == {"export const s = <div style=\"color: red\" style=\"margin: 0\" />;", "export const s = <div class=\"a\" class=\"b\" id=\"x\" />;",
            "export const s = <div style=\"color: red\" style={{ top: 0 }} class=\"a\" class={\"b\"} />;",
            "export const s = <C onClick=\"x\" onClick=\"y\" style=\"a: b\" style=\"c: d\">t</C>;",
            "export const s = <div class={`a ${1}`} style={[\"left: 0\", \"top: 0\"]} data-x={1 + 1} title={\"a\" + \"b\"} />;",
            "export const s = <C a={1} b=\"2\" c d={null} e={undefined} f={[1, 2]} g={{ h: 1 }}>{1}{\"2\"}{null}{true}</C>;"}

Mk(kind, head, text, o) == [kind |-> kind, head |-> head, text |-> text, opts |-> o]
Raws == {Mk("unusual", <<>>, t, Opt(o)) : t \in Unusual, o \in OptSets}
        \cup {Mk("pragma", <<p>>, t, Opt(o)) : p \in Pragmas, t \in PragmaBodies, o \in OptSets \cap {"default", "pragma"}}
        \cup {Mk("pragma_mid", <<"const q = 1;", p>>, t, Opt("default")) : p \in Pragmas, t \in PragmaBodies}
        \cup {Mk("dirform", <<>>, t, Opt(o)) : t \in DirForms, o \in OptSets \cap {"default", "optimize"}}
        \cup {Mk("deep", <<>>, t, Opt(o)) : t \in DeepForms, o \in {"optimize"}}
        \cup {Mk("ts", <<>>, TsHead \o t, Opt("all")) : t \in TsForms}
        \cup {Mk("await_yield_in_slot", <<>>, t, Opt(o)) : t \in AwaitYield, o \in OptSets \cap {"default", "none"}}
        \cup {Mk("leak", <<>>, t, o) : t \in LeakTexts, o \in LeakOpts}
        \cup {Mk("optdiff", <<>>, t, Opt(o)) : t \in OptDiff, o \in OptSets \cap {"default", "none", "all"}}

CaseSeq ==
  LET raw == SetToSeq(Raws) IN
  [i \in 1..Len(raw) |->
     [case |-> "G-" \o ToString(i), prop |-> "C07", opts |-> raw[i].opts, kind |-> raw[i].kind, lang |-> IF raw[i].kind = "ts" THEN "tsx" ELSE "jsx",
      head |-> raw[i].head,
      items |-> IF raw[i].kind = "optdiff"       \* these are executed (C12): their value is exported as `s`
                THEN << [k |-> "raw", text |-> raw[i].text, exports |-> << [name |-> "s", kind |-> "value"] >>] >>
                ELSE <<Raw(raw[i].text)>>]]

ASSUME PrintT(<<"CASES", Len(CaseSeq)>>)
ASSUME ndJsonSerialize(IOEnv.CASES_OUT, CaseSeq)
VARIABLE x
Init == x = 0
Next == x' = x
=============================================================================
