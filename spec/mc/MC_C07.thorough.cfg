CONSTANTS
  OptSets = {"default", "optimize", "all", "none", "pragma"}
  Depths = {5, 40, 120, 200}
INIT Init
NEXT Next
