CONSTANTS
  Placements = {"before", "after", "exported_before"}
INIT Init
NEXT Next
