CONSTANTS
  Devs = {}
  EosChoices = {TRUE}
  MaxPrefix = 1
  MaxSuffix = 1
INIT Init
NEXT Next
