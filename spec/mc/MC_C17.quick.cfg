CONSTANTS
  Depth = 1
INIT Init
NEXT Next
