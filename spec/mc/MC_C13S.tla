-------------------------------- MODULE MC_C13S --------------------------------
(* Model checking of SlotFlags.tla over the nested component trees of C13Domain (both optimize settings):  *)
(* StackBalancedAtEnd, PushPopMatched, FlagSoundAtPop, NoFlagsWithoutOptimize, DepthBounded.               *)
EXTENDS SlotFlags, SequencesExt

CONSTANTS TreeDepth

RECURSIVE Trees(_)
Leafs == {ChExpr(Ident("bi", TRUE, PVNode("pvb"))), ChExpr(Ident("ui", FALSE, PVNode("pvu"))), ChText(<<"a">>),
          ChExpr(Call("gk", PVNode("pvk"))), ChSpread(Ident("bs", TRUE, Arr(<<PVNode("pvs")>>)))}
Trees(d) ==
  IF d = 0 THEN Leafs
  ELSE Leafs \cup {ChElem(Elem(t, <<>>, cs)) : t \in {TagComp("A" \o ToString(d), FALSE, Undef), TagHtml("div"), TagFrag},
                                              cs \in SeqsFromTo(Trees(d - 1), 1, 2)}
Opt(opt) == [DefaultOpts EXCEPT !.optimize = opt]
(* deep nesting: chains of single-child elements / components / fragments down to a leaf *)
RECURSIVE Chains(_)
Chains(d) == IF d = 0 THEN Leafs
             ELSE Leafs \cup {ChElem(Elem(t, <<>>, <<c>>)) : t \in {TagComp("A" \o ToString(d), FALSE, Undef), TagHtml("div"), TagFrag}, c \in Chains(d - 1)}
TreeCases == {[elem |-> Elem(TagComp("Root", FALSE, Undef), <<>>, cs), opts |-> Opt(opt)] :
                cs \in SeqsFromTo(Trees(TreeDepth), 1, 2) \cup {<<c>> : c \in Chains(4)}, opt \in BOOLEAN}

Init == InitWith(TreeCases)
Spec == Init /\ [][Next]_vars
=============================================================================
