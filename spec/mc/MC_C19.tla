-------------------------------- MODULE MC_C19 --------------------------------
(***************************************************************************)
(* C19 — resolveType: declared emitted events.  Event-name sets x          *)
(* encodings x placement; and the absence of an annotation.                *)
(***************************************************************************)
EXTENDS Types, Json, IOUtils, SequencesExt

CONSTANTS Placements

L(s) == LitT("str", s)
U(xs) == IF Len(xs) = 1 THEN xs[1] ELSE UnionT(xs)
NameSets == {<<"foo">>, <<"foo", "bar">>, <<"update:modelValue", "foo-bar", "baz">>, <<"a", "b", "c", "d">>}
Lits(ns) == [i \in 1..Len(ns) |-> L(ns[i])]
Halves(ns) == {<<SubSeq(ns, 1, i), SubSeq(ns, i + 1, Len(ns))>> : i \in 1..(Len(ns) - 1)}

Enc(ns) ==
  {<<FnP(U(Lits(ns))), <<>>>>,                                                           \* (e: 'a' | 'b') => void
   <<ParenT(FnP(U(Lits(ns)))), <<>>>>,
   <<UnionT([i \in 1..Len(ns) |-> FnP(L(ns[i]))]), <<>>>>,                              \* union of function types
   <<TypeLit([i \in 1..Len(ns) |-> CallSig(L(ns[i]))]), <<>>>>,                         \* call-signature literal
   <<TypeLit(<<CallSig(U(Lits(ns)))>>), <<>>>>,
   <<TypeLit([i \in 1..Len(ns) |-> Prop(ns[i], "str", FALSE, TupleT(<<>>))]), <<>>>>,    \* property syntax
   <<Ref("E1", <<>>), <<Alias("E1", FnP(U(Lits(ns))))>>>>,
   <<Ref("E1", <<>>), <<Alias("E1", TypeLit(<<CallSig(U(Lits(ns)))>>))>>>>,
   <<Ref("E1", <<>>), <<Interface("E1", <<>>, <<CallSig(U(Lits(ns)))>>)>>>>,
   <<Ref("E1", <<>>), <<Interface("E1", <<>>, [i \in 1..Len(ns) |-> Prop(ns[i], "str", FALSE, TupleT(<<>>))])>>>>,
   <<FnP(Ref("N1", <<>>)), <<Alias("N1", U(Lits(ns)))>>>>,                               \* literal-union alias
   <<TypeLit(<<CallSig(Ref("N2", <<>>))>>), <<Alias("N2", Ref("N1", <<>>)), Alias("N1", U(Lits(ns)))>>>>}
  \cup {<<Ref("E2", <<>>), <<Interface("B1", <<>>, <<CallSig(U(Lits(h[1])))>>), Interface("E2", <<"B1">>, <<CallSig(U(Lits(h[2])))>>)>>>> : h \in Halves(ns)}
  \cup {<<Ref("E5", <<>>), <<Alias("B5", TypeLit(<<CallSig(U(Lits(h[1])))>>)), Interface("E5", <<"B5">>, <<CallSig(U(Lits(h[2])))>>)>>>> : h \in Halves(ns)}
  \cup {<<Ref("E6", <<>>), <<Alias("B6", TypeLit([i \in 1..Len(h[1]) |-> Prop(h[1][i], "str", FALSE, TupleT(<<>>))])),
                            Interface("M6", <<"B6">>, <<>>),
                            Interface("E6", <<"M6">>, [i \in 1..Len(h[2]) |-> Prop(h[2][i], "str", FALSE, TupleT(<<>>))])>>>> : h \in Halves(ns)}
  \cup {<<InterT(<<FnP(U(Lits(h[1]))), Ref("E3", <<>>)>>), <<Alias("E3", FnP(U(Lits(h[2]))))>>>> : h \in Halves(ns)}
  \cup {<<UnionT(<<FnP(U(Lits(h[1]))), ParenT(FnP(U(Lits(h[2]))))>>), <<>>>> : h \in Halves(ns)}
  \cup {<<FnP(UnionT(<<U(Lits(h[1])), Ref("N3", <<>>)>>)), <<Alias("N3", U(Lits(h[2])))>>>> : h \in Halves(ns)}
  \* parenthesised literal unions, an empty interface with two parents
  \cup {<<FnP(ParenT(U(Lits(ns)))), <<>>>>}
  \cup {<<FnP(UnionT(<<U(Lits(h[1])), ParenT(U(Lits(h[2])))>>)), <<>>>> : h \in Halves(ns)}
  \cup {<<Ref("E7", <<>>), <<Interface("P7", <<>>, <<CallSig(U(Lits(h[1])))>>), Interface("Q7", <<>>, <<CallSig(U(Lits(h[2])))>>),
                            Interface("E7", <<"P7", "Q7">>, <<>>)>>>> : h \in Halves(ns)}
  \cup {<<Ref("E4", <<>>), <<Interface("E4", <<>>, <<CallSig(U(Lits(h[1])))>>), Interface("E4", <<>>, <<CallSig(U(Lits(h[2])))>>)>>>> : h \in Halves(ns)}
  \* a later declaration of the interface adds a parent
  \cup {<<Ref("E8", <<>>), <<Interface("B8", <<>>, <<CallSig(U(Lits(h[1])))>>), Interface("E8", <<>>, <<CallSig(U(Lits(h[2])))>>), Interface("E8", <<"B8">>, <<>>)>>>> : h \in Halves(ns)}
  \cup {<<Ref("E9", <<>>), <<Interface("B9", <<>>, [i \in 1..Len(h[1]) |-> Prop(h[1][i], "str", FALSE, TupleT(<<>>))]), Interface("E9", <<>>, <<>>),
                            Interface("E9", <<"B9">>, [i \in 1..Len(h[2]) |-> Prop(h[2][i], "str", FALSE, TupleT(<<>>))])>>>> : h \in Halves(ns)}

ShadowedE(d) ==       \* the same name, declaring the single event "zz" in the same style
  IF d.k = "interface" THEN Interface(d.name, <<>>, <<CallSig(L("zz"))>>)
  ELSE IF d.type.k = "fn" THEN Alias(d.name, FnP(L("zz")))
  ELSE IF d.type.k = "typelit" THEN Alias(d.name, TypeLit(<<CallSig(L("zz"))>>))
  ELSE Alias(d.name, L("zz"))                                   \* a literal-union alias
Raw == {[type |-> e[1], decls |-> e[2], place |-> p, annotated |-> TRUE] : e \in UNION {Enc(ns) : ns \in NameSets}, p \in Placements}
       \cup {[type |-> e[1], decls |-> e[2], place |-> "dual_scope", annotated |-> TRUE] :
               e \in {x \in UNION {Enc(ns) : ns \in NameSets} : Len(x[2]) = 1}}
       \cup {[type |-> Kw("any"), decls |-> <<>>, place |-> "before", annotated |-> FALSE]}
CtxForms == {"slots2", "destructured", "slots2_destructured", "defaulted"}     \* SetupContext<E, S> / `{ emit }: SetupContext<E>` (beside the plain `ctx: SetupContext<E>`)

RawX == {[ctxform |-> "plain"] @@ r : r \in Raw}
        \cup {[ctxform |-> cf] @@ r : r \in {x \in Raw : x.place = "before" /\ x.annotated}, cf \in CtxForms}
CaseSeq ==
  LET raw == SetToSeq(RawX) IN
  [i \in 1..Len(raw) |->
     [case |-> "C19-" \o ToString(i), prop |-> "C19", lang |-> "tsx", tscase |-> "emits",
      type |-> raw[i].type, decls |-> raw[i].decls, place |-> raw[i].place, annotated |-> raw[i].annotated, ctxform |-> raw[i].ctxform,
      shadow |-> IF raw[i].place = "dual_scope" THEN <<ShadowedE(raw[i].decls[1])>> ELSE <<>>,
      opts |-> [transformOn |-> FALSE, optimize |-> FALSE, mergeProps |-> TRUE, enableObjectSlots |-> TRUE, resolveType |-> TRUE,
                patterns |-> <<>>, pragma |-> ""]]]

ASSUME PrintT(<<"CASES", Len(CaseSeq)>>)
ASSUME ndJsonSerialize(IOEnv.CASES_OUT, CaseSeq)
VARIABLE x
Init == x = 0
Next == x' = x
=============================================================================
