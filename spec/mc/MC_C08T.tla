-------------------------------- MODULE MC_C08T --------------------------------
(* C08 — termination of type resolution: model checking of TypeResolve.tla over every declaration   *)
(* graph on the given names (liveness: Termination; safety: ReportsCycles, DepthBounded), and        *)
(* emission of every terminal state (graph + the lookups the model predicts) for replay on the real  *)
(* resolveType.                                                                                      *)
EXTENDS TypeResolveProps, Json

Emit ==
  done => PrintT(ToJson([marker |-> "CASE", prop |-> "C08", lang |-> "tsx", tscase |-> "graph",
                         graph |-> [n \in Names |-> decl[n]], root |-> Root, predicted |-> visited,
                         cyclic |-> CycleReachable, poisoned |-> poisoned,
                         opts |-> [transformOn |-> FALSE, optimize |-> FALSE, mergeProps |-> TRUE, enableObjectSlots |-> TRUE,
                                   resolveType |-> TRUE, patterns |-> <<>>, pragma |-> ""]]))
=============================================================================
