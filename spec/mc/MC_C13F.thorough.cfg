CONSTANTS
  MaxAttrs = 2
  Names3 = {"class", "ref", "onFoo", "foo", "spread", "dir", "vmodel", "on", "key"}
  TreeDepth = 2
SPECIFICATION Spec
INVARIANTS AgreesWithOperator Sound DynNamesDistinct NeverNegative
PROPERTIES Monotone
