CONSTANTS
  MaxAttrs = 2
  Names3 = {"class", "ref", "onFoo", "spread", "dir"}
  WithInput = TRUE
  TreeDepth = 1
SPECIFICATION Spec
INVARIANTS AgreesWithOperator Sound DynNamesDistinct NeverNegative
PROPERTIES Monotone
