CONSTANTS
  MaxAttrs = 2
  Names3 = {"class", "ref", "onFoo", "spread", "dir"}
  TreeDepth = 2
SPECIFICATION Spec
INVARIANTS AgreesWithOperator Sound DynNamesDistinct NeverNegative
PROPERTIES Monotone
