INIT Init
NEXT Next
