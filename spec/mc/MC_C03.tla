-------------------------------- MODULE MC_C03 --------------------------------
(***************************************************************************)
(* C03 — component children become slots.  Full product of component host *)
(* x child shape x runtime value kind of a single identifier/call child x  *)
(* v-slots form x {enableObjectSlots, optimize} x enclosing context.       *)
(***************************************************************************)
EXTENDS Source, Json, IOUtils, SequencesExt

CONSTANTS Contexts

S(cp) == Str(cp)
Hosts == {TagComp("Foo", TRUE, Opq("vFoo")), TagComp("Bar", FALSE, Undef), TagMember("o2", "Comp", Opq("vo2Comp")), TagMember("o2", "div", Opq("vo2div"))}

(* runtime value kinds of the single identifier / call child *)
RvKinds == {PVNode("pv1"), S(<<115>>), Arr(<<PVNode("pv2"), S(<<116>>)>>),
            Obj(<< <<"default", FnR("sd", Arr(<<S(<<100>>)>>))>>, <<"foo", FnR("sf", S(<<102>>))>> >>),
            FnR("fd", Arr(<<PVNode("pv3")>>))}

B == Elem(TagHtml("b"), <<>>, <<>>)
ChildShapes ==
  {<<>>}
  \cup {<<ChExpr(Ident("cb", TRUE, rv))>> : rv \in RvKinds}
  \cup {<<ChExpr(Ident("cu", FALSE, rv))>> : rv \in RvKinds}
  \cup {<<ChExpr(Call("g1", rv))>> : rv \in RvKinds}
  \cup {<<ChExpr(Arrow(ArrLit(<<Lit(Num(1))>>)))>>, <<ChExpr(FnExpr(Lit(S(<<120>>))))>>,
        <<ChExpr(ObjLit(<< <<"default", Arrow(Lit(Num(1)))>>, <<"bar", Arrow(Ident("u1", FALSE, Num(7)))>> >>))>>,
        \* parentheses around the single child are transparent
        <<ChExpr(Wrap("paren", Arrow(ArrLit(<<Lit(Num(1))>>))))>>, <<ChExpr(Wrap("paren", FnExpr(Lit(S(<<120>>)))))>>,
        <<ChExpr(Wrap("paren", ObjLit(<< <<"default", Arrow(Lit(Num(1)))>>, <<"bar", Arrow(Ident("u1", FALSE, Num(7)))>> >>)))>>,
        <<ChExpr(Wrap("paren", Ident("cb", TRUE, FnR("fd", Arr(<<PVNode("pv3")>>)))))>>,
        <<ChExpr(Wrap("paren", Ident("cb", TRUE, PVNode("pv1"))))>>,
        <<ChExpr(Wrap("paren", Call("g1", Obj(<< <<"default", FnR("sd", Arr(<<S(<<100>>)>>))>> >>))))>>,
        <<ChExpr(Wrap("paren", Call("g1", S(<<115>>))))>>,
        \* TypeScript wrappers are expressions of their own (not an identifier / function child): default slot
        <<ChExpr(Wrap("tsnonnull", Ident("cb", TRUE, FnR("fd", Arr(<<PVNode("pv3")>>)))))>>,
        <<ChExpr(Wrap("tsas", Ident("cb", TRUE, PVNode("pv1"))))>>,
        <<ChExpr(Wrap("tsas", Call("g1", S(<<115>>))))>>,
        \* a slots object that already carries the reserved `_` entry (pasted compiled output)
        <<ChExpr(ObjLit(<< <<"default", Arrow(Lit(Num(1)))>>, <<"_", Lit(Num(1))>> >>))>>,
        <<ChText(<<"a">>)>>, <<ChElem(B)>>,
        <<ChElem(Elem(TagHtml("span"), <<Dir("kebab", <<"show">>, "", <<>>, AvExpr(Ident("sv", FALSE, Bool(TRUE))))>>, <<>>))>>,
        <<ChElem(Elem(TagHtml("i"), <<Dir("kebab", <<"foo">>, "", <<>>, AvExpr(Ident("dv", FALSE, Opq("vdv"))))>>, <<ChText(<<"a">>)>>))>>, <<ChExpr(Member("o1", "p", Opq("vo1p")))>>,
        <<ChExpr(Lit(S(<<108>>)))>>,
        <<ChText(<<"a", "sp">>), ChExpr(Ident("cu", FALSE, S(<<115>>)))>>,
        <<ChExpr(Call("g1", PVNode("pv1"))), ChExpr(Ident("cb", TRUE, PVNode("pv4")))>>,
        <<ChSpread(Ident("xs", FALSE, Arr(<<PVNode("e1"), PVNode("e2")>>)))>>,
        <<ChSpread(Call("gxs", Arr(<<PVNode("e3"), PVNode("e4")>>)))>>,
        <<ChSpread(ArrLit(<<Ident("cb", TRUE, PVNode("pv4")), Call("g1", PVNode("pv1"))>>))>>,    \* {...[cb, g1()]}
        <<ChText(<<"a">>), ChSpread(ArrLit(<<Ident("cu", FALSE, S(<<115>>))>>))>>,
        <<ChComment, ChSpread(Member("o1", "list", Arr(<<PVNode("e5")>>)))>>,
        <<ChSpread(Call("gxs", Arr(<<PVNode("e3")>>))), ChText(<<"a">>)>>,
        <<ChElem(B), ChText(<<"lf", "sp">>), ChElem(B)>>,
        <<ChEmpty, ChExpr(Ident("cu", FALSE, FnR("fd", Arr(<<PVNode("pv3")>>)))), ChComment>>}

VSlotForms == {<<>>,
               <<[k |-> "vslots", e |-> Ident("vs", FALSE, Obj(<< <<"foo", FnR("vsfoo", S(<<118>>))>> >>))]>>,
               <<[k |-> "vslots", e |-> ObjLit(<< <<"foo", Arrow(Lit(Num(3)))>> >>)]>>,
               \* any expression may supply the slots: a member, a call, a parenthesised identifier
               <<[k |-> "vslots", e |-> Member("o1", "slots", Obj(<< <<"foo", FnR("vsfoo", S(<<118>>))>> >>))]>>,
               <<[k |-> "vslots", e |-> Call("mkSlots", Obj(<< <<"foo", FnR("vsfoo", S(<<118>>))>> >>))]>>,
               <<[k |-> "vslots", e |-> Wrap("paren", Ident("vs", FALSE, Obj(<< <<"foo", FnR("vsfoo", S(<<118>>))>> >>)))]>>}

Opts(eos, opt) == [DefaultOpts EXCEPT !.enableObjectSlots = eos, !.optimize = opt]

(* `v-slots` followed by an attribute whose value is a JSX element: the slots stay with the component they are written on *)
VSlotThenElemAttr ==
  {[host |-> h, children |-> cs, vslots |-> vs \o <<Plain("icon", AvElem(Elem(TagComp("Baz", FALSE, Undef), <<Plain("size", AvStr(<<"a">>))>>, <<>>)))>>,
    opts |-> Opts(TRUE, opt), ctx |-> "module"] :
     h \in {TagComp("Foo", TRUE, Opq("vFoo"))}, cs \in {<<>>, <<ChText(<<"a">>)>>, <<ChExpr(Ident("cu", FALSE, PVNode("pv1")))>>},
     vs \in VSlotForms \ {<<>>}, opt \in BOOLEAN}

Raw == {[host |-> h, children |-> cs, vslots |-> vs, opts |-> Opts(eos, opt), ctx |-> cx] :
          h \in Hosts, cs \in ChildShapes, vs \in VSlotForms, eos \in BOOLEAN, opt \in BOOLEAN, cx \in Contexts}

CaseSeq ==
  LET raw == SetToSeq(Raw) \o SetToSeq(VSlotThenElemAttr) IN
  [i \in 1..Len(raw) |->
     [case |-> "C03-" \o ToString(i), prop |-> "C03", opts |-> raw[i].opts,
      lang |-> IF \E j \in 1..Len(raw[i].children) : raw[i].children[j].k = "expr" /\ raw[i].children[j].e.k = "wrap"
                                                       /\ raw[i].children[j].e.form \in {"tsnonnull", "tsas"} THEN "tsx" ELSE "jsx",
      items |-> << [k |-> "export_jsx", name |-> "s1", ctx |-> raw[i].ctx,
                    elem |-> Elem(raw[i].host, raw[i].vslots, raw[i].children)] >>]]

ASSUME PrintT(<<"CASES", Len(CaseSeq)>>)
ASSUME ndJsonSerialize(IOEnv.CASES_OUT, CaseSeq)
VARIABLE x
Init == x = 0
Next == x' = x
=============================================================================
