CONSTANTS
  MaxAttrs = 3
INIT Init
NEXT Next
