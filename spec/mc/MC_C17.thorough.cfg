CONSTANTS
  Depth = 2
INIT Init
NEXT Next
