CONSTANTS
  Contexts = {"module", "fn", "arrow_expr"}
INIT Init
NEXT Next
