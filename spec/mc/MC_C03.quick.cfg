CONSTANTS
  Contexts = {"module", "fn", "arrow_expr", "loop_first", "calls_first", "param_first"}
INIT Init
NEXT Next
