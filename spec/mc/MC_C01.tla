-------------------------------- MODULE MC_C01 --------------------------------
(***************************************************************************)
(* C01 — vnode type and props.  Enumerates tag forms x attribute sequences *)
(* x options and writes them as cases; Judge_C01 decides each recorded     *)
(* behaviour of the real transform against Denote!DenoteElem.              *)
(***************************************************************************)
EXTENDS Source, Json, IOUtils, SequencesExt

CONSTANTS MaxAttrs       \* attribute sequences up to this length (exhaustive)

S(cp) == Str(cp)
H1 == Fn("h1")  H2 == Fn("h2")  H3 == Fn("h3")

AttrAtoms == {
  Plain("id", AvStr(<<"a", "sp", "sp", "b">>)),
  Plain("title", AvStr(<<"a", "sp", "lf", "sp", "b", "sp">>)),
  Plain("alt", AvStr(<<"a", "tab", "b", "sp", "sp">>)),       \* a tab on a single line
  Plain("pattern", AvStr(<<"a", "bs", "b", "bsn">>)),         \* backslashes stay backslashes
  Plain("label", AvStr(<<"a", "amp", "b", "apos", "lt">>)),   \* entities are decoded
  Plain("disabled", AvNone),
  Plain("foo", AvExpr(Ident("b1", TRUE, Opq("vb1")))),
  Plain("bar", AvExpr(Ident("u1", FALSE, Num(7)))),
  Plain("baz", AvExpr(Call("f1", S(<<122>>)))),
  Plain("qux", AvExpr(Member("o1", "p", Opq("vo1p")))),
  NsAttr("xlink", "href", AvStr(<<"a">>)),
  Plain("class", AvStr(<<"c">>)),
  Plain("class", AvExpr(Ident("k1", FALSE, S(<<100>>)))),
  Plain("class", AvExpr(Ident("k2", FALSE, Arr(<<S(<<97>>), Obj(<< <<"b", Bool(TRUE)>>, <<"c", Bool(FALSE)>> >>)>>)))),
  Plain("style", AvExpr(ObjLit(<< <<"color", Lit(S(<<114>>))>> >>))),
  Plain("style", AvExpr(Ident("st1", FALSE, Obj(<< <<"color", S(<<103>>)>>, <<"top", Num(1)>> >>)))),
  Plain("onClick", AvExpr(Ident("h1", FALSE, H1))),
  Plain("onClick", AvExpr(Ident("h2", FALSE, H2))),
  Plain("onFoo", AvExpr(Ident("h3", FALSE, H3))),
  Spread(Ident("sp1", FALSE, Obj(<< <<"class", S(<<101>>)>>, <<"id", Opq("vsp1id")>>, <<"onClick", H3>>,
                                    <<"style", Obj(<< <<"top", Num(2)>> >>)>> >>))),
  Spread(ObjLit(<< <<"id", Ident("u2", FALSE, Num(9))>>, <<"class", Lit(S(<<102>>))>> >>)),
  Spread(Call("g1", Obj(<< <<"bar", Num(3)>>, <<"onFoo", H1>> >>))),
  Plain("on", AvExpr(ObjLit(<< <<"click", Ident("h2", FALSE, H2)>>, <<"foo", Ident("h1", FALSE, H1)>> >>))),
  Plain("nativeOn", AvExpr(ObjLit(<< <<"bar", Ident("h3", FALSE, H3)>> >>)))
}

(* repeated names are in the domain only for class / style / listeners (DESIGN §6.0) *)
NameOf(a) == IF a.k = "spread" THEN "..." ELSE IF a.k = "ns" THEN a.ns \o ":" \o a.name ELSE a.name
Repeatable(n) == n \in {"class", "style", "onClick", "onFoo", "..."}
InDomain(as) == \A i, j \in 1..Len(as) : i < j /\ NameOf(as[i]) = NameOf(as[j]) => Repeatable(NameOf(as[i]))

AttrSeqs == {as \in SeqsUpTo(AttrAtoms, MaxAttrs) : InDomain(as)}

(* every syntactic category of an attribute value *)
ValueForms == {
  Lit(S(<<97, 32, 32, 98>>)), Lit(Num(0)), Lit(Num(42)), Lit(Bool(FALSE)), Lit(Bool(TRUE)), Lit(Null), Undefined,
  ObjLit(<< <<"a", Lit(Num(1))>>, <<"b", Ident("u1", FALSE, Num(7))>> >>), ObjLit(<<>>),
  ArrLit(<<Lit(Num(1)), Call("f1", S(<<122>>))>>), ArrLit(<<>>),
  Arrow(Lit(Num(1))), FnExpr(Lit(Num(1))),
  Wrap("paren", Ident("u1", FALSE, Num(7))), Wrap("cond", Call("f1", S(<<122>>))), Wrap("seq", Member("o1", "p", Opq("vo1p"))),
  Wrap("or", Ident("u1", FALSE, Num(7))), Wrap("nullish", Ident("u1", FALSE, Num(7))),
  Wrap("tpl", Ident("u3", FALSE, S(<<120, 121>>))), Wrap("and", Call("f1", S(<<122>>)))
}

Tags == {TagHtml("div"), TagHtml("svg"), TagHtml("input"), TagCustom("i-foo"), TagCustom("x-foo"),
         TagCustomBound("UiBox", Opq("vUiBox")), TagCustom("Widget"), TagCustom("ION-y"),
         TagComp("Foo", TRUE, Opq("vFoo")), TagComp("Bar", FALSE, Undef),
         TagMember("o2", "Comp", Opq("vo2Comp")), TagMember("o2", "div", Opq("vo2div")), TagMember("o2", "my-el", Opq("vo2myel")), TagFragmentName, TagKeepAlive}

BoolOpts(mp, ton, opt, pats) ==
  [DefaultOpts EXCEPT !.mergeProps = mp, !.transformOn = ton, !.optimize = opt, !.patterns = pats]

SeqCases ==
  {[kind |-> "seq", tag |-> t, attrs |-> as, opts |-> BoolOpts(mp, ton, TRUE, <<>>)] :
     t \in {TagHtml("div"), TagComp("Foo", TRUE, Opq("vFoo"))}, as \in AttrSeqs, mp \in BOOLEAN, ton \in BOOLEAN}

(* a repeated mergeable name whose two occurrences are *not* adjacent (the static merge must find the first   *)
(* occurrence anywhere in the pending segment, and must not look across a spread)                              *)
Middles == {a \in AttrAtoms : NameOf(a) \in {"id", "disabled", "foo", "baz", "class", "style", "onClick", "on"}}
              \cup {Spread(Ident("sp1", FALSE, Obj(<< <<"class", S(<<101>>)>>, <<"id", Opq("vsp1id")>>, <<"onClick", H3>>,
                                                      <<"style", Obj(<< <<"top", Num(2)>> >>)>> >>)))}
Sandwiches == {<<a, m, b>> : a \in AttrAtoms, m \in Middles, b \in AttrAtoms}
SandwichCases ==
  {[kind |-> "seq", tag |-> t, attrs |-> as, opts |-> BoolOpts(mp, ton, TRUE, <<>>)] :
     t \in {TagHtml("div"), TagComp("Foo", TRUE, Opq("vFoo"))},
     as \in {x \in Sandwiches : NameOf(x[1]) = NameOf(x[3]) /\ NameOf(x[1]) \in {"class", "style", "onClick"}
                                 /\ NameOf(x[2]) # NameOf(x[1]) /\ InDomain(x)},
     mp \in BOOLEAN, ton \in BOOLEAN}

TagCases ==
  {[kind |-> "tag", tag |-> t, attrs |-> as, opts |-> BoolOpts(mp, ton, opt, pats)] :
     t \in Tags,
     as \in {<<>>, <<Plain("id", AvStr(<<"a">>))>>,
             <<Plain("class", AvStr(<<"c">>)), Spread(Ident("sp1", FALSE, Obj(<< <<"class", S(<<101>>)>> >>)))>>},
     mp \in BOOLEAN, ton \in {FALSE}, opt \in BOOLEAN,
     pats \in {<<>>, <<"^i-">>, <<"^Ui", "foo$">>, <<"(?i)^ion-", "^widget$">>, <<"^widget$", "(?i)^ion-">>}}

FormCases ==
  {[kind |-> "form", tag |-> TagHtml("div"), attrs |-> <<Plain("foo", AvExpr(v))>>, opts |-> BoolOpts(mp, FALSE, TRUE, <<>>)] :
     v \in ValueForms, mp \in BOOLEAN}

CaseSeq ==
  LET raw == SetToSeq(SeqCases \cup SandwichCases \cup TagCases \cup FormCases) IN
  [i \in 1..Len(raw) |->
     [case |-> "C01-" \o ToString(i), prop |-> "C01", opts |-> raw[i].opts, kind |-> raw[i].kind,
      items |-> << [k |-> "export_jsx", name |-> "s1", ctx |-> "module",
                    elem |-> Elem(raw[i].tag, raw[i].attrs, <<>>)] >>]]

ASSUME PrintT(<<"CASES", Len(CaseSeq)>>)
ASSUME ndJsonSerialize(IOEnv.CASES_OUT, CaseSeq)

VARIABLE x
Init == x = 0
Next == x' = x
=============================================================================
