CONSTANTS
  Names = {"P", "Q", "R"}
  Root = "P"
  MaxDepth = 8
  StackLimit = 1000
  Bounded = TRUE
SPECIFICATION Spec
VIEW view
INVARIANTS ReportsCycles DepthBounded NoOverflow
PROPERTIES Termination
