INIT Init
NEXT Next
