-------------------------------- MODULE MC_C17 --------------------------------
(***************************************************************************)
(* C17 — inferred runtime prop types.  Type expressions built from the     *)
(* atom table by union, alias indirection, parenthesisation, optionality,  *)
(* array/tuple/property indexing and the documented utility wrappers.      *)
(***************************************************************************)
EXTENDS Types, Json, IOUtils, SequencesExt

CONSTANTS Depth

Str == Kw("string")  Num == Kw("number")  Boo == Kw("boolean")
Obj == TypeLit(<<Prop("foo", "ident", FALSE, Str)>>)
Atoms == {Str, Num, Boo, Kw("object"), Kw("bigint"), Kw("symbol"), Kw("any"), Kw("unknown"), Kw("null"),
          LitT("str", "lit"), LitN(123), LitT("bool", "true"), LitT("tpl", "a${string}"), LitT("bigint", "123"),
          FnT, CtorT, ArrT(Str), TupleT(<<Str, Num>>), Obj, TypeLit(<<CallSig(Str)>>), TypeLit(<<Prop("foo", "ident", FALSE, Str), CallSig(Str)>>),
          TypeLit(<<>>),
          Ref("Date", <<>>), Ref("Map", <<Str, Num>>), Ref("Set", <<Str>>), Ref("Promise", <<Str>>), Ref("RegExp", <<>>), Ref("Error", <<>>),
          Ref("WeakMap", <<Obj, Str>>), Ref("WeakSet", <<Obj>>), Ref("Array", <<Str>>), Ref("Function", <<>>), Ref("Object", <<>>)}

(* <<type, declarations>> *)
MethodIdx == {<<IdxT(TypeLit(<<Method("mm", FALSE), Prop("j", "ident", FALSE, Num)>>), LitT("str", "mm")), <<>>>>,
              <<IdxT(Ref("IM", <<>>), LitT("str", "mm")), <<Interface("IM", <<>>, <<Method("mm", FALSE), Prop("j", "ident", FALSE, Num)>>)>>>>,
              <<IdxT(Ref("IM", <<>>), UnionT(<<LitT("str", "mm"), LitT("str", "j")>>)), <<Interface("IM", <<>>, <<Method("mm", FALSE), Prop("j", "ident", FALSE, Num)>>)>>>>,
              <<IdxT(TypeLit(<<Method("mm", TRUE)>>), Kw("string")), <<>>>>,
              <<IdxT(Ref("AM", <<>>), LitT("str", "g")), <<Alias("AM", TypeLit(<<Getter("g", Str), Method("mm", FALSE)>>))>>>>}
NullFirst == {<<Ref("NonNullable", <<UnionT(<<Kw("null"), Str, Boo>>)>>), <<>>>>,
              <<Ref("NonNullable", <<UnionT(<<Kw("null"), Boo, Str>>)>>), <<>>>>,
              <<Ref("NonNullable", <<UnionT(<<Kw("null"), Str, Num, Boo>>)>>), <<>>>>,
              <<Ref("NonNullable", <<Ref("NN", <<>>)>>), <<Alias("NN", UnionT(<<Kw("null"), Str, Kw("null"), Boo, FnT>>))>>>>,
              <<UnionT(<<Str, Str, Boo, Str>>), <<>>>>, <<UnionT(<<Boo, Kw("null"), Str, Boo>>), <<>>>>,
              <<IdxT(TupleT(<<Boo, Str>>), Kw("number")), <<>>>>, <<IdxT(TupleT(<<Str, Boo, Num>>), LitN(0)), <<>>>>,
              <<IdxT(TupleT(<<Str, Boo, Num>>), LitN(2)), <<>>>>, <<IdxT(ArrT(UnionT(<<Boo, Str>>)), LitN(0)), <<>>>>,
              <<ArrT(UnionT(<<Boo, Str>>)), <<>>>>}
(* names whose values this file says nothing about (imported, global outside the table), enums, accesses through parents *)
Outside == {<<Ref("Foreign", <<>>), <<>>>>, <<Ref("Imp", <<>>), <<ImportT("Imp")>>>>, <<Ref("ReturnType", <<FnT>>), <<>>>>,
            <<ArrT(Ref("Imp", <<>>)), <<ImportT("Imp")>>>>,
            <<OpT("keyof", Obj), <<>>>>, <<OpT("readonly", ArrT(Str)), <<>>>>, <<QueryT("someValue"), <<>>>>, <<CondT, <<>>>>, <<MappedT, <<>>>>,
            <<QRefT("NS", "Name"), <<>>>>, <<UnionT(<<QRefT("NS", "A"), QRefT("NS", "B")>>), <<>>>>,
            <<Ref("Map", <<>>), <<ImportT("Map")>>>>, <<Ref("Error", <<>>), <<ImportT("Error")>>>>,
            <<Ref("TP", <<>>), <<TypeParamD("TP")>>>>, <<UnionT(<<Ref("TP", <<>>), Boo>>), <<TypeParamD("TP")>>>>,
            <<Ref("Klass", <<>>), <<ClassD("Klass")>>>>,
            <<Ref("ES", <<>>), <<EnumDecl("ES", <<"str", "str">>)>>>>, <<Ref("EN", <<>>), <<EnumDecl("EN", <<"num">>)>>>>,
            <<Ref("EM", <<>>), <<EnumDecl("EM", <<"num", "str">>)>>>>, <<Ref("EA", <<>>), <<EnumDecl("EA", <<"auto", "auto", "str">>)>>>>,
            <<UnionT(<<Ref("EA", <<>>), Kw("null")>>), <<EnumDecl("EA", <<"auto", "str">>)>>>>, <<Ref("EE", <<>>), <<EnumDecl("EE", <<>>)>>>>,
            <<IdxT(Ref("DX", <<>>), LitT("str", "a")),
              <<Interface("BX", <<>>, <<Prop("a", "ident", FALSE, Str)>>), Interface("DX", <<"BX">>, <<Prop("j", "ident", FALSE, Num)>>)>>>>,
            <<IdxT(Ref("IX", <<>>), LitT("str", "x")),
              <<Alias("IX", InterT(<<TypeLit(<<Prop("x", "ident", FALSE, Boo)>>), TypeLit(<<Prop("y", "ident", FALSE, Num)>>)>>))>>>>,
            <<IdxT(IdxT(TypeLit(<<Prop("n", "ident", FALSE, TypeLit(<<Prop("m", "ident", FALSE, Str)>>))>>), LitT("str", "n")), LitT("str", "m")), <<>>>>,
            <<IdxT(ParenT(Ref("BX", <<>>)), LitT("str", "a")), <<Interface("BX", <<>>, <<Prop("a", "ident", FALSE, Str)>>)>>>>,
            <<IdxT(Ref("Partial", <<Ref("BX", <<>>)>>), LitT("str", "a")), <<Interface("BX", <<>>, <<Prop("a", "ident", FALSE, Str)>>)>>>>}
Base == {<<a, <<>>>> : a \in Atoms} \cup MethodIdx \cup NullFirst \cup Outside
        \cup {<<Ref("IObj", <<>>), <<Interface("IObj", <<>>, <<Prop("foo", "ident", FALSE, Str)>>)>>>>,
              <<Ref("IFn", <<>>), <<Interface("IFn", <<>>, <<CallSig(Str)>>)>>>>,
              <<Ref("IEmpty", <<>>), <<Interface("IEmpty", <<>>, <<>>)>>>>}

(* Extract / Exclude at the top of the prop type *)
FilterTs == {UnionT(<<Ref("Date", <<>>), Str, Num>>), UnionT(<<Str, ArrT(Str)>>), UnionT(<<Str, Num, Boo>>), UnionT(<<Obj, Boo, Str>>),
             UnionT(<<Boo, Ref("Map", <<Str, Num>>), Kw("null")>>), Str}
FilterUs == {Kw("object"), Boo, Str, UnionT(<<Str, Num>>), Kw("any"), Ref("Date", <<>>), Obj}
Filters == {<<Ref(n, <<t, u>>), <<>>>> : n \in {"Extract", "Exclude"}, t \in FilterTs, u \in FilterUs}
           \cup {<<Ref("Extract", <<Ref("FT", <<>>), Ref("FU", <<>>)>>),
                   <<Alias("FT", UnionT(<<Ref("Date", <<>>), Str>>)), Interface("FU", <<>>, <<Prop("foo", "ident", TRUE, Str)>>)>>>>}

Wrap(e, tag) ==
  {<<Ref("A" \o tag, <<>>), Append(e[2], Alias("A" \o tag, e[1]))>>,
   <<ParenT(e[1]), e[2]>>,
   <<IdxT(TupleT(<<Str, e[1]>>), LitN(1)), e[2]>>,
   <<IdxT(ArrT(e[1]), Kw("number")), e[2]>>,
   <<IdxT(TypeLit(<<Prop("k", "ident", FALSE, e[1]), Prop("j", "ident", FALSE, Num)>>), LitT("str", "k")), e[2]>>,
   <<IdxT(Ref("H" \o tag, <<>>), LitT("str", "k")), Append(e[2], Interface("H" \o tag, <<>>, <<Prop("k", "ident", FALSE, e[1])>>))>>,
   <<Ref("NonNullable", <<e[1]>>), e[2]>>, <<Ref("NonNullable", <<UnionT(<<e[1], Kw("null")>>)>>), e[2]>>,
   <<Ref("Partial", <<e[1]>>), e[2]>>, <<Ref("Readonly", <<e[1]>>), e[2]>>, <<Ref("Record", <<Str, e[1]>>), e[2]>>,
   <<Ref("Uppercase", <<LitT("str", "x")>>), e[2]>>, <<Ref("Parameters", <<FnT>>), e[2]>>}
Unions(e, tag) ==
  {<<UnionT(<<e[1], o>>), e[2]>> : o \in {Str, Boo, Kw("null"), Kw("any"), Num}}
  \cup {<<UnionT(<<o, e[1]>>), e[2]>> : o \in {Str, Boo}}
  \cup {<<UnionT(<<Boo, e[1], Str>>), e[2]>>, <<UnionT(<<Str, e[1], Boo>>), e[2]>>}

Level1 == Base \cup UNION {Wrap(e, "1") : e \in Base} \cup UNION {Unions(e, "1") : e \in Base}
Level2 == UNION {Wrap(e, "2") : e \in UNION {Unions(b, "1") : b \in Base}} \cup UNION {Unions(e, "2") : e \in UNION {Wrap(b, "1") : b \in Base}}
Exprs == (IF Depth >= 2 THEN Level1 \cup Level2 ELSE Level1) \cup Filters

Raw == {[type |-> TypeLit(<<Prop("p", "ident", opt, e[1])>>), decls |-> e[2], ptype |-> e[1]] : e \in Exprs, opt \in BOOLEAN}

CaseSeq ==
  LET raw == SetToSeq(Raw) IN
  [i \in 1..Len(raw) |->
     [case |-> "C17-" \o ToString(i), prop |-> "C17", lang |-> "tsx", tscase |-> "rtype", place |-> "before",
      type |-> raw[i].type, decls |-> raw[i].decls, ptype |-> raw[i].ptype,
      opts |-> [transformOn |-> FALSE, optimize |-> FALSE, mergeProps |-> TRUE, enableObjectSlots |-> TRUE, resolveType |-> TRUE,
                patterns |-> <<>>, pragma |-> ""]]]

ASSUME PrintT(<<"CASES", Len(CaseSeq)>>)
ASSUME ndJsonSerialize(IOEnv.CASES_OUT, CaseSeq)
VARIABLE x
Init == x = 0
Next == x' = x
=============================================================================
