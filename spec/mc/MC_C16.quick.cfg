CONSTANTS
  Depth2 = FALSE
INIT Init
NEXT Next
