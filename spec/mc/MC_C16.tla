-------------------------------- MODULE MC_C16 --------------------------------
(***************************************************************************)
(* C16 — resolveType: declared props and requiredness.  Prop maps x        *)
(* encodings obtained by recursively partitioning and wrapping the map     *)
(* with the structural operators, x declaration position / scope / export. *)
(***************************************************************************)
EXTENDS Types, Json, IOUtils, SequencesExt

CONSTANTS Depth2        \* also compose two encodings

Str == Kw("string")  Num == Kw("number")  Boo == Kw("boolean")

Maps == {
  <<Prop("a", "ident", FALSE, Str), Prop("b", "ident", TRUE, Num)>>,
  <<Prop("foo-bar", "str", FALSE, Boo), Method("m", FALSE), Getter("g", Str), Prop("c", "ident", TRUE, UnionT(<<Str, Num>>))>>,
  <<Prop("a", "ident", TRUE, Str), Method("om", TRUE), Prop("k", "str", TRUE, ArrT(Str))>>,
  <<Prop("x", "ident", FALSE, FnT)>>,
  <<>>
}

Parts(m) == {<<SubSeq(m, 1, i), SubSeq(m, i + 1, Len(m))>> : i \in 0..Len(m)}

(* one level of encoding of a member list: <<type expression, declarations>> *)
Enc(m, tag) ==
  {<<TypeLit(m), <<>>>>,
   <<Ref("T" \o tag, <<>>), <<Alias("T" \o tag, TypeLit(m))>>>>,
   <<Ref("U" \o tag, <<>>), <<Alias("U" \o tag, Ref("T" \o tag, <<>>)), Alias("T" \o tag, TypeLit(m))>>>>,
   <<Ref("I" \o tag, <<>>), <<Interface("I" \o tag, <<>>, m)>>>>,
   <<ParenT(TypeLit(m)), <<>>>>,
   <<IdxT(TypeLit(<<Prop("w", "ident", FALSE, TypeLit(m))>>), LitT("str", "w")), <<>>>>,
   <<IdxT(Ref("W" \o tag, <<>>), LitT("str", "w")), <<Interface("W" \o tag, <<>>, <<Prop("w", "ident", FALSE, TypeLit(m)), Prop("v", "ident", FALSE, Str)>>)>>>>,
   <<Ref("Partial", <<TypeLit(m)>>), <<>>>>, <<Ref("Required", <<TypeLit(m)>>), <<>>>>,
   <<Ref("Pick", <<TypeLit(m), UnionT(<<LitT("str", "a"), LitT("str", "m"), LitT("str", "foo-bar")>>)>>), <<>>>>,
   <<Ref("Omit", <<TypeLit(m), LitT("str", "a")>>), <<>>>>,
   <<Ref("Omit", <<Ref("I" \o tag, <<>>), Ref("K" \o tag, <<>>)>>), <<Interface("I" \o tag, <<>>, m), Alias("K" \o tag, UnionT(<<LitT("str", "b"), LitT("str", "g")>>))>>>>}
  \cup {<<InterT(<<TypeLit(<<Prop("a", "ident", FALSE, Num)>>), Ref("Omit", <<TypeLit(m), LitT("str", "a")>>)>>), <<>>>>,        \* an earlier sibling declares the omitted key
        <<InterT(<<TypeLit(<<Prop("z", "ident", FALSE, Num)>>), Ref("Pick", <<TypeLit(m), LitT("str", "a")>>)>>), <<>>>>,
        <<InterT(<<TypeLit(<<Prop("r", "ident", FALSE, Num)>>), Ref("Partial", <<TypeLit(m)>>)>>), <<>>>>,
        <<InterT(<<Ref("Partial", <<TypeLit(m)>>), TypeLit(<<Prop("r", "ident", FALSE, Num)>>)>>), <<>>>>,
        <<InterT(<<TypeLit(<<Prop("r", "ident", TRUE, Num), Method("rm", TRUE)>>), Ref("Required", <<TypeLit(m)>>)>>), <<>>>>,   \* earlier optional siblings stay optional
        <<InterT(<<TypeLit(<<Prop("r", "ident", TRUE, Num)>>), Ref("Partial", <<Ref("Required", <<TypeLit(m)>>)>>)>>), <<>>>>,
        <<InterT(<<Ref("O" \o tag, <<>>), Ref("Required", <<Ref("I" \o tag, <<>>)>>)>>),
          <<Alias("O" \o tag, TypeLit(<<Prop("r", "ident", TRUE, Num)>>)), Interface("I" \o tag, <<>>, m)>>>>,
        <<Ref("Partial", <<InterT(<<TypeLit(<<Prop("b", "ident", FALSE, Num)>>), Ref("Omit", <<Ref("I" \o tag, <<>>), LitT("str", "b")>>)>>)>>),
          <<Interface("I" \o tag, <<>>, m)>>>>}
  \cup {<<Ref("I" \o tag, <<>>), <<Alias("A" \o tag, TypeLit(p[1])), Interface("I" \o tag, <<"A" \o tag>>, p[2])>>>> : p \in Parts(m)}     \* interface extends an object-type alias
  \cup {<<Ref("I" \o tag, <<>>), <<Alias("A" \o tag, TypeLit(p[1])), Interface("M" \o tag, <<"A" \o tag>>, <<>>), Interface("I" \o tag, <<"M" \o tag>>, p[2])>>>> : p \in Parts(m)}
  \cup {<<Ref("I" \o tag, <<>>), <<Interface("I" \o tag, <<>>, p[1]), Interface("I" \o tag, <<>>, p[2])>>>> : p \in Parts(m)}
  \cup {<<Ref("I" \o tag, <<>>), <<Interface("B" \o tag, <<>>, p[1]), Interface("I" \o tag, <<"B" \o tag>>, p[2])>>>> : p \in Parts(m)}
  \* parents with type arguments (`extends Omit<B, 'xx'>`, `extends Partial<B>`), a later merged declaration that adds a parent
  \cup {<<Ref("I" \o tag, <<>>), <<Interface("B" \o tag, <<>>, Append(p[1], Prop("xx", "ident", FALSE, Num))),
                                   InterfaceX("I" \o tag, <<Ref("Omit", <<Ref("B" \o tag, <<>>), LitT("str", "xx")>>)>>, p[2])>>>> : p \in Parts(m)}
  \cup {<<Ref("I" \o tag, <<>>), <<Interface("B" \o tag, <<>>, p[1]),
                                   InterfaceX("I" \o tag, <<Ref("Pick", <<Ref("B" \o tag, <<>>), UnionT(<<LitT("str", "a"), LitT("str", "b"), LitT("str", "m"), LitT("str", "g"), LitT("str", "foo-bar")>>)>>)>>, p[2])>>>> : p \in Parts(m)}
  \cup {<<Ref("I" \o tag, <<>>), <<Interface("B" \o tag, <<>>, p[2]), Interface("I" \o tag, <<>>, p[1]), Interface("I" \o tag, <<"B" \o tag>>, <<>>)>>>> : p \in Parts(m)}
  \* two declarations of one interface, each with a parent of the same head name and different arguments
  \cup {<<Ref("I" \o tag, <<>>), <<Interface("A" \o tag, <<>>, Append(p[1], Prop("xx", "ident", FALSE, Num))), Interface("B" \o tag, <<>>, Append(p[2], Prop("yy", "ident", FALSE, Num))),
                                   InterfaceX("I" \o tag, <<Ref("Omit", <<Ref("A" \o tag, <<>>), LitT("str", "xx")>>)>>, <<>>),
                                   InterfaceX("I" \o tag, <<Ref("Omit", <<Ref("B" \o tag, <<>>), LitT("str", "yy")>>)>>, <<>>)>>>> : p \in Parts(m)}
  \cup {<<InterT(<<TypeLit(p[1]), Ref("T" \o tag, <<>>)>>), <<Alias("T" \o tag, TypeLit(p[2]))>>>> : p \in Parts(m)}
  \cup {<<InterT(<<Ref("I" \o tag, <<>>), ParenT(TypeLit(p[2]))>>), <<Interface("I" \o tag, <<>>, p[1])>>>> : p \in Parts(m)}

(* second level: wrap an encoded type once more *)
Wrap2(e, tag) ==
  {<<Ref("Z" \o tag, <<>>), Append(e[2], Alias("Z" \o tag, e[1]))>>,
   <<Ref("Partial", <<e[1]>>), e[2]>>, <<Ref("Required", <<e[1]>>), e[2]>>,
   <<InterT(<<e[1], TypeLit(<<Prop("extra", "ident", TRUE, Num)>>)>>), e[2]>>,
   <<Ref("J" \o tag, <<>>), Append(e[2], Interface("J" \o tag, <<>>, <<Prop("own", "ident", FALSE, Str)>>))>>,
   <<ParenT(e[1]), e[2]>>}

Encodings == UNION {Enc(m, "1") : m \in Maps}
             \cup (IF Depth2 THEN UNION {Wrap2(e, "2") : e \in UNION {Enc(m, "1") : m \in Maps} } ELSE {})

Unresolvable == {<<Ref("Imported", <<>>), <<>>>>, <<Ref("Readonly", <<TypeLit(<<Prop("a", "ident", FALSE, Str)>>)>>), <<>>>>,
                 <<InterT(<<TypeLit(<<Prop("a", "ident", FALSE, Str)>>), Ref("Ext", <<>>)>>), <<>>>>,
                 <<ArrT(Str), <<>>>>, <<Kw("string"), <<>>>>}

Placements == {"before", "after", "exported_before", "exported_after", "scoped", "scoped_shadowing"}
(* two calls in one module: the module-level declaration, and a function scope that re-declares the same name *)
(* with other members (`zz`) and calls defineComponent with the same annotation                             *)
Shadowed(d) == IF d.k = "alias" THEN Alias(d.name, TypeLit(<<Prop("zz", "ident", FALSE, Str)>>))
               ELSE Interface(d.name, <<>>, <<Prop("zz", "ident", FALSE, Str)>>)

Raw == {[type |-> e[1], decls |-> e[2], place |-> p, resolvable |-> TRUE] : e \in Encodings, p \in Placements}
       \cup {[type |-> e[1], decls |-> e[2], place |-> "dual_scope", resolvable |-> TRUE] : e \in {x \in Encodings : Len(x[2]) = 1}}
       \cup {[type |-> e[1], decls |-> e[2], place |-> "before", resolvable |-> FALSE] : e \in Unresolvable}
       \* the declaration the annotation names inside a function, everything it refers to at module level
       \cup {[type |-> e[1], decls |-> e[2], place |-> "split_scope", resolvable |-> TRUE] :
               e \in {x \in Encodings : /\ x[1].k = "ref" /\ \E i \in 1..Len(x[2]) : x[2][i].name = x[1].name
                                         /\ \E j \in 1..Len(x[2]) : x[2][j].name # x[1].name}}

(* how the annotated parameter is written: `props: T`, destructured `{ zz }: T`, with an empty default `props: T = {}`, *)
(* as a function expression `function (props: T) {…}`, with a second (context) parameter                         *)
PForms == {"destructured", "empty_default", "function", "with_ctx"}
RawX == {[pform |-> "plain"] @@ r : r \in Raw}
        \cup {[pform |-> pf] @@ r : r \in {x \in Raw : x.place = "before" /\ x.resolvable}, pf \in PForms}
CaseSeq ==
  LET raw == SetToSeq(RawX) IN
  [i \in 1..Len(raw) |->
     [case |-> "C16-" \o ToString(i), prop |-> "C16", lang |-> "tsx", tscase |-> "props",
      type |-> raw[i].type, decls |-> raw[i].decls, place |-> raw[i].place, resolvable |-> raw[i].resolvable, pform |-> raw[i].pform,
      shadow |-> IF raw[i].place = "dual_scope" THEN <<Shadowed(raw[i].decls[1])>> ELSE <<>>,
      opts |-> [transformOn |-> FALSE, optimize |-> FALSE, mergeProps |-> TRUE, enableObjectSlots |-> TRUE, resolveType |-> TRUE,
                patterns |-> <<>>, pragma |-> ""]]]

ASSUME PrintT(<<"CASES", Len(CaseSeq)>>)
ASSUME ndJsonSerialize(IOEnv.CASES_OUT, CaseSeq)
VARIABLE x
Init == x = 0
Next == x' = x
=============================================================================
