INIT Init
NEXT Next
