CONSTANTS
  Names = {"P", "Q", "R"}
  Root = "P"
  MaxDepth = 128
  StackLimit = 1000
  Bounded = TRUE
SPECIFICATION Spec
VIEW view
INVARIANTS ReportsCycles DepthBounded NoOverflow Emit
