CONSTANTS
  Contexts = {"module", "fn", "arrow_expr", "arrow_block", "arrow_arrow", "class_field", "method", "default_param", "block", "loop", "if_unbraced"}
INIT Init
NEXT Next
