CONSTANTS
  Contexts = {"module", "fn", "arrow_expr", "arrow_block", "arrow_arrow", "class_field", "method", "default_param", "block", "loop", "if_unbraced", "loop_first", "while_first", "calls_first", "field_first", "param_first"}
INIT Init
NEXT Next
