-------------------------------- MODULE MC_C02 --------------------------------
(***************************************************************************)
(* C02 — children and JSX text.  Enumerates (exhaustively, within the      *)
(* bounds below) the abstract inputs the property quantifies over and      *)
(* writes them as cases; Judge_C02 decides each recorded behaviour.        *)
(***************************************************************************)
EXTENDS Source, Json, IOUtils, SequencesExt

CONSTANTS MaxText,        \* strings up to this length in the "only child" position
          MaxTextPos,     \* strings up to this length in the other positions
          MaxChildren,    \* child sequences up to this length
          Alphabet        \* text symbols (Text!SymCp)

X1 == Ident("x1", FALSE, Opq("vx1"))
X2 == Ident("x2", FALSE, Str(<<122>>))
B  == Elem(TagHtml("b"), <<>>, <<>>)

Texts(n) == SeqsUpTo(Alphabet, n)

(* text in every position relative to expression containers and elements *)
Positioned(t, pos) ==
  CASE pos = "only"    -> <<ChText(t)>>
    [] pos = "after"   -> <<ChExpr(X1), ChText(t)>>
    [] pos = "before"  -> <<ChText(t), ChExpr(X1)>>
    [] pos = "between" -> <<ChExpr(X1), ChText(t), ChElem(B)>>
    [] pos = "elems"   -> <<ChElem(B), ChText(t), ChElem(B)>>

TextCases ==
  {[kind |-> "text", host |-> TagHtml("div"), children |-> Positioned(t, "only")] : t \in Texts(MaxText)}
  \cup {[kind |-> "text", host |-> TagHtml("div"), children |-> Positioned(t, pos)] :
          t \in Texts(MaxTextPos) \ {<<>>}, pos \in {"after", "before", "between", "elems"}}

(* texts of three lines, beyond the length bound of the exhaustive family: every arrangement of leading / trailing *)
(* blanks around the content of the first, the inner and the last line                                       *)
Blanks == {<<>>, <<"sp">>, <<"tab">>, <<"sp", "sp">>, <<"nbsp">>} \cap SeqsUpTo(Alphabet, 2)
Breaks == {<<"lf">>, <<"crlf">>} \cap SeqsUpTo(Alphabet, 1)
LineTexts ==
  {l1 \o t1 \o br1 \o h2 \o c2 \o t2 \o br2 \o h3 \o c3 :
     l1 \in {<<>>, <<"a">>}, t1 \in {<<>>, <<"sp">>}, br1 \in Breaks, h2 \in {<<>>, <<"sp">>, <<"tab">>} \cap Blanks,
     c2 \in {<<>>, <<"b">>, <<"b", "sp", "a">>}, t2 \in Blanks, br2 \in Breaks, h3 \in {<<>>, <<"sp">>}, c3 \in {<<>>, <<"a">>}}
LineCases ==
  {[kind |-> "text", host |-> TagHtml("div"), children |-> Positioned(t, pos)] : t \in LineTexts, pos \in {"only", "before"}}

ChildAtoms == {ChText(<<"a">>), ChText(<<"sp">>), ChText(<<"lf", "sp">>), ChExpr(X1), ChExpr(X2),
               ChExpr(Call("f1", Arr(<<Str(<<113>>)>>))), ChEmpty, ChComment,
               ChSpread(Ident("xs", FALSE, Arr(<<Opq("e1"), Opq("e2")>>))),
               ChSpread(Ident("xs0", FALSE, Arr(<<>>))),
               ChSpread(ArrLit(<<X2, Lit(Str(<<113>>))>>)), ChSpread(ArrLit(<<>>)),       \* {...[x2, "q"]}, {...[]}
               ChElem(B), ChElem(Elem(TagFrag, <<>>, <<ChExpr(X2)>>))}
Hosts == {TagHtml("div"), TagFragmentName, TagFrag, TagKeepAlive, TagCustom("i-foo"), TagCustom("ION-y")}    \* ION-y: a custom element that is not lower-case

SeqCases ==
  {[kind |-> "seq", host |-> h, children |-> cs] : h \in Hosts, cs \in SeqsUpTo(ChildAtoms, MaxChildren)}

Opts == [DefaultOpts EXCEPT !.patterns = <<"^i-", "(?i)^ion-">>]

CaseSeq ==
  LET raw == SetToSeq(TextCases \cup SeqCases) \o SetToSeq(LineCases) IN
  [i \in 1..Len(raw) |->
     [case |-> "C02-" \o ToString(i), prop |-> "C02", opts |-> Opts, kind |-> raw[i].kind,
      items |-> << [k |-> "export_jsx", name |-> "s1", ctx |-> "module",
                    elem |-> Elem(raw[i].host, <<>>, raw[i].children)] >>]]

ASSUME PrintT(<<"CASES", Len(CaseSeq)>>)
ASSUME ndJsonSerialize(IOEnv.CASES_OUT, CaseSeq)

VARIABLE x
Init == x = 0
Next == x' = x
=============================================================================
