CONSTANTS
  MaxList = 2
INIT Init
NEXT Next
