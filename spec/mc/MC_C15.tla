-------------------------------- MODULE MC_C15 --------------------------------
(***************************************************************************)
(* C15 — the vnode factory.  Comment placement x style x annotation text x *)
(* pragma option x modules with several elements and fragments.            *)
(***************************************************************************)
EXTENDS Source, Json, IOUtils, SequencesExt

(* annotation texts: <<text inside the comment, factory it names ("" = none), strict?>>                       *)
(*   strict = FALSE: the property is silent (name followed by more words): named factory or default accepted *)
Texts == {<<"@jsx a.b.c", "a.b.c", TRUE>>, <<"@jsx a.b", "a.b", TRUE>>,
          <<"@jsx h", "h", TRUE>>, <<"@jsx  custom", "custom", TRUE>>, <<"@jsx h extra words", "h", FALSE>>, <<"@jsx", "", TRUE>>,
          <<"@jsxImportSource vue", "", TRUE>>, <<"@jsxRuntime automatic", "", TRUE>>, <<"@jsxFrag F", "", TRUE>>,
          <<"just a comment", "", TRUE>>, <<"@jsximportsource h", "", TRUE>>, <<"see @jsx h", "", FALSE>>}
Styles == {"block", "line", "jsdoc", "jsdoc_multiline"}
(* another @jsx* annotation (or a nameless @jsx) written before the real one, in the same leading comment group *)
Groups == {"/** @jsxRuntime classic */ /** @jsx h */", "/**\n * @jsxImportSource vue\n * @jsxFrag F\n * @jsx h\n */",
           "// @jsxFrag F\n// @jsx h", "/* @jsx */ /* @jsx h */", "/* @jsxRuntime automatic */\n/* unrelated */\n/* @jsx h */",
           "/** @jsx h */ /** @jsxRuntime classic */", "/* unrelated */ // @jsx h"}
Places == {"head", "before_second", "before_export_default", "inside_function", "trailing", "inside_expression",
           "same_line_before_second", "same_line_trailing"}

Comment(style, text) ==
  CASE style = "block" -> "/* " \o text \o " */"
    [] style = "line"  -> "// " \o text
    [] style = "jsdoc" -> "/** " \o text \o " */"
    [] style = "jsdoc_multiline" -> "/**\n * " \o text \o "\n */"

E1 == Elem(TagHtml("div"), <<Plain("id", AvStr(<<"a">>))>>, <<ChElem(Elem(TagHtml("b"), <<>>, <<>>))>>)
E2 == Elem(TagFrag, <<>>, <<ChExpr(Ident("x1", FALSE, Num(1)))>>)
E3 == Elem(TagComp("Foo", FALSE, Undef), <<>>, <<ChText(<<"a">>)>>)

Item(name, ctx, el) == [k |-> "export_jsx", name |-> name, ctx |-> ctx, elem |-> el]
Cm(text) == [k |-> "comment", text |-> text]

ModuleFor(place, cm) ==
  CASE place = "head"          -> <<Cm(cm), Item("s1", "module", E1), Item("s2", "module", E2), Item("s3", "fn", E3)>>
    [] place = "before_second" -> <<Item("s1", "module", E1), Cm(cm), Item("s2", "module", E2), Item("s3", "fn", E3)>>
    [] place = "before_export_default" -> <<Item("s1", "module", E1), Item("s2", "arrow_expr", E2), Cm(cm), Item("s3", "fn", E3)>>
    [] place = "inside_function" -> <<Item("s1", "module", E1), [k |-> "raw", text |-> "export function s3() {\n  " \o cm \o "\n  return <><b/></>;\n}",
                                                                exports |-> <<[name |-> "s3", kind |-> "thunk"]>>]>>
    \* on the line of the previous statement, yet before the next one / after the last one
    [] place = "same_line_before_second" -> <<Item("s1", "module", E1), [k |-> "sameline", text |-> cm], Item("s2", "module", E2), Item("s3", "fn", E3)>>
    [] place = "same_line_trailing" -> <<Item("s1", "module", E1), Item("s2", "module", E2), [k |-> "sameline", text |-> cm]>>
    [] place = "trailing"      -> <<Item("s1", "module", E1), Item("s2", "module", E2), Cm(cm)>>
    [] place = "inside_expression" -> <<[k |-> "raw", text |-> "export const s1 = [ " \o cm \o "\n <div id=\"a\"><b /></div> ][0];",
                                         exports |-> <<[name |-> "s1", kind |-> "value"]>>], Item("s2", "module", E2)>>

Effective(place) == place \in {"head", "before_second", "before_export_default", "same_line_before_second"}

Raw == {r \in {[place |-> p, style |-> s, text |-> t, optPragma |-> op] :
                   p \in Places, s \in Styles, t \in Texts, op \in {"", "hh"}} :
          r.place \in {"same_line_before_second", "same_line_trailing"} => r.style \in {"block", "jsdoc"}}

GroupCases ==
  {[case |-> "C15-g", prop |-> "C15", opts |-> [DefaultOpts EXCEPT !.pragma = op], place |-> p, style |-> "group", text |-> g,
    named |-> "h", strict |-> TRUE, pragmas |-> <<"h", "custom", "hh", "F", "a.b.c", "a.b">>, items |-> ModuleFor(p, g)] :
     g \in Groups, p \in {"head", "before_second", "before_export_default"}, op \in {"", "hh"}}

(* a pragma changes the factory only: whatever else the module needs (the transformOn helper, directives, text nodes) *)
(* is still imported - also when nothing but the factory would have come from 'vue'                                  *)
H1 == Ident("h1", FALSE, Fn("h1"))
E4 == Elem(TagHtml("div"), <<Plain("on", AvExpr(ObjLit(<< <<"click", H1>> >>)))>>, <<>>)
E5 == Elem(TagHtml("div"), <<Plain("id", AvStr(<<"a">>)), Plain("on", AvExpr(ObjLit(<< <<"click", H1>> >>)))>>, <<>>)
E6 == Elem(TagHtml("div"), <<Dir("kebab", <<"show">>, "", <<>>, AvExpr(Ident("sv", FALSE, Bool(TRUE))))>>, <<>>)
E7 == Elem(TagComp("Foo", TRUE, Opq("vFoo")), <<>>, <<ChExpr(Ident("cu", FALSE, FnR("fd", Arr(<<Num(1)>>))))>>)      \* needs the slot test helper (and isVNode)
E8 == Elem(TagComp("Foo", TRUE, Opq("vFoo")), <<>>, <<ChExpr(Call("g1", Num(2)))>>)
HelperCases ==
  {[case |-> "C15-h", prop |-> "C15", opts |-> [DefaultOpts EXCEPT !.pragma = op, !.transformOn = TRUE, !.mergeProps = mp],
    place |-> "head", style |-> "block", text |-> cm, named |-> IF cm = "" THEN "" ELSE "h", strict |-> TRUE,
    pragmas |-> <<"h", "custom", "hh", "F", "a.b.c", "a.b">>,
    items |-> (IF cm = "" THEN <<>> ELSE <<Cm(cm)>>) \o <<Item("s1", "module", e)>>] :
     e \in {E4, E5, E6, E7, E8}, op \in {"", "hh"}, cm \in {"", "/* @jsx h */"}, mp \in BOOLEAN}

CaseSeq ==
  LET raw == SetToSeq(Raw)
      grp == SetToSeq(GroupCases \cup HelperCases) IN
  [j \in 1..Len(grp) |-> [grp[j] EXCEPT !.case = "C15-g" \o ToString(j)]] \o
  [i \in 1..Len(raw) |->
     LET r == raw[i]
         named == IF Effective(r.place) THEN r.text[2] ELSE ""
     IN [case |-> "C15-" \o ToString(i), prop |-> "C15", opts |-> [DefaultOpts EXCEPT !.pragma = r.optPragma],
         place |-> r.place, style |-> r.style, text |-> r.text[1],
         named |-> named, strict |-> r.text[3] \/ ~Effective(r.place),
         pragmas |-> <<"h", "custom", "hh", "F", "a.b.c", "a.b">>,
         items |-> ModuleFor(r.place, Comment(r.style, r.text[1]))]]

ASSUME PrintT(<<"CASES", Len(CaseSeq)>>)
ASSUME ndJsonSerialize(IOEnv.CASES_OUT, CaseSeq)
VARIABLE x
Init == x = 0
Next == x' = x
=============================================================================
