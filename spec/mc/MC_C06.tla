-------------------------------- MODULE MC_C06 --------------------------------
(***************************************************************************)
(* C06 / C09 / C10 — model checking of the traversal state machine          *)
(* (Visitor.tla) over all module histories up to the bounds: ScopeOK,       *)
(* NoLeak, DeclsUsed, … hold in every reachable state; every terminal       *)
(* state is emitted as a case (abstract module + the hook trace the model   *)
(* predicts) to be replayed on the real visitor.                            *)
(***************************************************************************)
EXTENDS Visitor, Json, Source

CONSTANTS MaxItems,       \* module-level items
          MaxBody,        \* items in a nested body
          Depth,          \* nesting depth of bodies
          SiteKinds, ItemKinds

S(kind) == Site(kind, "x")      \* ids are assigned by position when the case is emitted

RECURSIVE Items(_)
Leaf == {S(k) : k \in SiteKinds}
        \cup (IF "assign" \in ItemKinds THEN {Assign("a", PlainItem)} \cup {Assign("a", S(k)) : k \in SiteKinds} ELSE {})
        \cup (IF "userdecl" \in ItemKinds THEN {Assign("_slot", S("call"))} ELSE {})      \* the user's own `_slot` is the target
        \cup (IF "userdecl" \in ItemKinds THEN {UserDecl("_slot"), UserDecl("_a"), UserDecl("_createVNode"), UserDecl("_isSlot"), UserDecl("_Fragment")} ELSE {})
        \cup (IF "classfield" \in ItemKinds THEN {ClassField(S(k)) : k \in SiteKinds \cap {"call", "ident"}} ELSE {})
        \cup (IF "arrow" \in ItemKinds THEN {ArrowExpr(S(k)) : k \in SiteKinds} \cup {ArrowExpr(Assign("a", S("ident")))}
                                           \cup {ArrowExpr(PlainItem)} ELSE {})        \* () => 1: an arrow without JSX stays as it is (C09)
ArrowParamItems ==
             (IF "arrowparam" \in ItemKinds
              THEN {ArrowP(S("call"), S(k2)) : k2 \in SiteKinds \cap {"plain", "call"}}
                   \cup {ArrowP(S(k), S("plain")) : k \in SiteKinds \cap {"ident"}}
                   \cup {ArrowBlockP(S("call"), <<>>)} \cup {ArrowBlockP(S("call"), <<S(k2)>>) : k2 \in SiteKinds \cap {"call"}}
              ELSE {})
LeafAt(d) == IF d + 1 >= Depth THEN Leaf \cup ArrowParamItems ELSE Leaf      \* (not at the deepest level of the thorough tier)
Bodies(d) == UNION {[1..n -> Items(d)] : n \in 0..MaxBody}
Items(d) ==
  IF d = 0 THEN LeafAt(0)
  ELSE LeafAt(d)
       \cup (IF "fn" \in ItemKinds THEN {FnItem(b) : b \in Bodies(d - 1)} ELSE {})
       \cup (IF "block" \in ItemKinds THEN {Block(b) : b \in Bodies(d - 1) \ {<<>>}} ELSE {})
       \cup (IF "arrowblock" \in ItemKinds THEN {ArrowBlock(b) : b \in Bodies(d - 1) \ {<<>>}} ELSE {})
       \cup (IF "fnparam" \in ItemKinds THEN {FnParam(S(k), b) : k \in SiteKinds \cap {"call", "ident"}, b \in Bodies(d - 1)} ELSE {})
       \cup (IF "arrow" \in ItemKinds /\ d >= 1 THEN {ArrowExpr(ArrowExpr(S("call")))} ELSE {})

RECURSIVE HasSite(_)
HasSite(it) ==
  CASE it.k = "site" -> TRUE
    [] it.k = "assign" -> it.rhs.k = "site"
    [] it.k \in {"fn", "block", "arrowblock"} -> \E i \in 1..Len(it.body) : HasSite(it.body[i])
    [] it.k = "fnparam" -> TRUE
    [] it.k = "arrow" -> HasSite(it.item)
    [] it.k \in {"arrowp", "arrowblockp"} -> TRUE
    [] it.k = "classfield" -> TRUE
    [] OTHER -> FALSE

(* `let _slot` (for the assignment to the user's `_slot`) and `const _slot` cannot both be declared at module level *)
RECURSIVE AssignsSlot(_)
AssignsSlot(it) ==
  CASE it.k = "assign" -> it.x = "_slot"
    [] it.k \in {"fn", "block", "arrowblock", "fnparam", "arrowblockp"} -> \E i \in 1..Len(it.body) : AssignsSlot(it.body[i])
    [] it.k \in {"arrow", "arrowp"} -> AssignsSlot(it.item)
    [] OTHER -> FALSE
NoClash(m) == ~\E i, j \in 1..Len(m) : AssignsSlot(m[i]) /\ m[j].k = "userdecl" /\ m[j].name = "_slot"
Modules == {m \in UNION {[1..n -> Items(Depth)] : n \in 1..MaxItems} : NoClash(m) /\ \E i \in 1..Len(m) : HasSite(m[i])}

Init == InitWith(Modules)
Spec == Init /\ [][Next]_allvars

(* the concrete JSX element of the i-th site (in source = traversal order) *)
SiteElem(kind, i) ==
  LET n == ToString(i) IN
  CASE kind = "plain" -> Elem(TagHtml("div"), <<Plain("id", AvStr(<<"a">>))>>, <<>>)
    [] kind = "call"  -> Elem(TagComp("C" \o n, FALSE, Undef), <<>>, <<ChExpr(Call("f" \o n, PVNode("pv" \o n)))>>)
    [] kind = "ident" -> Elem(TagComp("A" \o n, FALSE, Undef), <<>>, <<ChExpr(Ident("a", TRUE, PVNode("pva")))>>)
    [] kind = "frag"  -> Elem(TagFrag, <<>>, <<ChExpr(Ident("x" \o n, FALSE, Num(i)))>>)
SiteOpsOf == SelectSeq(ops, LAMBDA o : o.k = "site")
Sites == [i \in 1..Len(SiteOpsOf) |-> [id |-> "s" \o ToString(i), kind |-> SiteOpsOf[i].kind, elem |-> SiteElem(SiteOpsOf[i].kind, i)]]

(* emission: one case per explored behaviour, when the traversal is complete *)
Emit ==
  Done => PrintT(ToJson([marker |-> "CASE", prop |-> "C06", module |-> mod, sites |-> Sites, predicted |-> trace,
                         decls |-> SetToSeq(decls), uses |-> SetToSeq(uses),
                         \* the concrete syntax of nested statement lists (block / switch case / catch / finally / labelled block / loop
                         \* body; function declaration / class method / getter / static block) rotates with the behaviour
                         variant |-> (Len(ops) + Cardinality(uses) + Len(trace)) % 8,
                         imports |-> SetToSeq(imports), helper |-> helper, opts |-> [DefaultOpts EXCEPT !.enableObjectSlots = eos]]))
=============================================================================
