-------------------------------- MODULE MC_C05 --------------------------------
(***************************************************************************)
(* C05 — v-model / v-models.  Hosts x targets x argument forms x modifier  *)
(* forms x {mergeProps, optimize}; v-models lists.  The runtime observer   *)
(* fires every onUpdate:* listener with a sentinel and reads the targets   *)
(* back, so "invoking the listener assigns the bound target" is observed.  *)
(***************************************************************************)
EXTENDS Source, Json, IOUtils, SequencesExt

CONSTANTS MaxList     \* v-models lists up to this length

S(cp) == Str(cp)
Hosts == {<<TagHtml("input"), <<>>>>,
          <<TagHtml("input"), <<Plain("type", AvStr(<<"w_checkbox">>))>>>>,
          <<TagHtml("input"), <<Plain("type", AvStr(<<"w_radio">>))>>>>,
          <<TagHtml("input"), <<Plain("type", AvStr(<<"w_number">>))>>>>,
          <<TagHtml("input"), <<Plain("type", AvExpr(Ident("ty", FALSE, S(<<116>>))))>>>>,
          <<TagHtml("input"), <<Plain("type", AvExpr(Lit(S(<<99, 104, 101, 99, 107, 98, 111, 120>>))))>>>>,   \* type={"checkbox"}
          <<TagHtml("input"), <<Plain("type", AvExpr(Lit(S(<<114, 97, 100, 105, 111>>))))>>>>,                  \* type={"radio"}
          <<TagHtml("input"), <<Plain("type", AvExpr(Lit(S(<<116, 101, 120, 116>>))))>>>>,                      \* type={"text"}
          <<TagHtml("select"), <<>>>>, <<TagHtml("textarea"), <<>>>>, <<TagHtml("div"), <<>>>>,
          <<TagComp("Foo", TRUE, Opq("vFoo")), <<>>>>, <<TagComp("Bar", FALSE, Undef), <<>>>>}

T1 == Ident("m1", TRUE, S(<<49>>))
T2 == Member("o3", "q", S(<<50>>))
T3 == Index("o3", "r", S(<<51>>))
T4 == Ident("m4", FALSE, S(<<52>>))
T5 == Ident("$event", TRUE, S(<<53>>))       \* the user's own `$event`: the listener parameter must not capture it (C06)
Targets == {T1, T2, T3, T4, T5}

AN == Ident("an", FALSE, StrS(<<100, 121, 110>>, "dyn"))
ArgForms == {<<"none", "", Undefined>>, <<"colon", "title", Undefined>>, <<"str2", "title", Undefined>>,
             <<"str2", "a_b", Undefined>>, <<"colon", "inputValue", Undefined>>,     \* (<arg>Modifiers: the whole name, also when it ends in "Value")          \* a string argument is a name as it stands (an underscore is not a modifier separator)
             <<"computed2", "", AN>>}
ModForms == {<<"none", <<>>>>, <<"suffix", <<"trim">>>>, <<"array", <<"trim", "lazy">>>>, <<"array", <<>>>>,
             <<"array1", <<>>>>}          \* the one-element array `{[target]}`

Models == {VModel(t, af[1], af[2], af[3], mf[1], mf[2]) : t \in Targets, af \in ArgForms, mf \in ModForms}

Single == {[tag |-> h[1], attrs |-> h[2] \o <<m>>] : h \in Hosts, m \in Models}
WithOthers == {[tag |-> h[1], attrs |-> h[2] \o pre \o <<m>> \o post] :
                 h \in {<<TagHtml("input"), <<>>>>, <<TagComp("Foo", TRUE, Opq("vFoo")), <<>>>>},
                 m \in {VModel(T1, "none", "", Undefined, "none", <<>>), VModel(T2, "str2", "title", Undefined, "array", <<"trim">>)},
                 pre \in {<<>>, <<Plain("class", AvStr(<<"c">>))>>, <<Spread(Ident("sp1", FALSE, Obj(<< <<"id", Num(1)>> >>)))>>},
                 post \in {<<>>, <<Plain("onClick", AvExpr(Ident("h1", FALSE, Fn("h1"))))>>,
                           <<Dir("kebab", <<"foo">>, "", <<>>, AvExpr(Ident("dv", FALSE, Opq("vdv"))))>>}}

(* v-models entries: only the array forms exist inside a list *)
Entries1 == VModel(T1, "none", "", Undefined, "none", <<>>)
Entries2 == VModel(T2, "str2", "title", Undefined, "none", <<>>)
Entries == {Entries1, Entries2,
            VModel(T3, "none", "", Undefined, "array", <<"trim">>), VModel(T4, "computed2", "", AN, "array", <<"lazy">>),
            VModel(Ident("m5", TRUE, S(<<53>>)), "str2", "foo", Undefined, "array", <<"trim">>),
            VModel(Ident("m6", TRUE, S(<<54>>)), "str2", "a_b", Undefined, "none", <<>>)}
NameOfModel(m) == IF m.argform = "none" THEN "modelValue" ELSE IF m.argform = "computed2" THEN "dyn" ELSE m.arg
DistinctTargets(l) == \A i, j \in 1..Len(l) : i < j => l[i].target # l[j].target /\ NameOfModel(l[i]) # NameOfModel(l[j])
Lists == {[tag |-> h, attrs |-> <<VModels(l)>>] :
            h \in {TagHtml("input"), TagComp("Foo", TRUE, Opq("vFoo"))},
            l \in {l \in SeqsFromTo(Entries, 1, MaxList) : DistinctTargets(l)}}

(* a v-models list followed by several attributes: splitting the list must leave the others where they were written *)
SpId == Spread(Ident("sp1", FALSE, Obj(<< <<"id", Num(1)>>, <<"foo", Num(2)>> >>)))
PId  == Plain("id", AvExpr(Ident("u1", FALSE, Num(7))))
PFoo == Plain("foo", AvExpr(Ident("u2", FALSE, Num(8))))
ListsWithOthers == {[tag |-> h, attrs |-> pre \o <<VModels(<<Entries1, Entries2>>)>> \o post] :
                      h \in {TagHtml("input"), TagComp("Foo", TRUE, Opq("vFoo"))},
                      pre \in {<<>>, <<PFoo>>},
                      post \in {<<PId, SpId>>, <<SpId, PId>>, <<PId, SpId, PFoo>>, <<SpId, PFoo, PId>>, <<PFoo, PId, SpId>>}}

Opts == {[DefaultOpts EXCEPT !.optimize = opt, !.mergeProps = mp] : opt \in BOOLEAN, mp \in BOOLEAN}

CaseSeq ==
  LET raw == SetToSeq((Single \cup WithOthers \cup Lists \cup ListsWithOthers) \X Opts) IN
  [i \in 1..Len(raw) |->
     [case |-> "C05-" \o ToString(i), prop |-> "C05", opts |-> raw[i][2],
      items |-> << [k |-> "export_jsx", name |-> "s1", ctx |-> "module",
                    elem |-> Elem(raw[i][1].tag, raw[i][1].attrs, <<>>)] >>]]

ASSUME PrintT(<<"CASES", Len(CaseSeq)>>)
ASSUME ndJsonSerialize(IOEnv.CASES_OUT, CaseSeq)
VARIABLE x
Init == x = 0
Next == x' = x
=============================================================================
