CONSTANTS
  Pairs = FALSE
INIT Init
NEXT Next
