INIT Init
NEXT Next
