CONSTANTS
  MaxAttrs = 2
  MaxKids = 2
  AttrKinds = {"call", "class", "onClick", "spread", "on", "dir", "vmodel", "trivial", "vmodels"}
  KidKinds = {"call", "member", "trivial", "text", "elem", "comp", "direlem"}
  OptCombos = {"TTT", "FFF", "FTT"}
  AttrKinds3 = {"call", "class", "onClick", "spread", "on", "vmodels"}
  KidKinds3 = {"call"}
INIT Init
NEXT Next
