CONSTANTS
  MaxAttrs = 2
INIT Init
NEXT Next
