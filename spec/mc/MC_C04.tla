-------------------------------- MODULE MC_C04 --------------------------------
(***************************************************************************)
(* C04 — directives.  Spellings x value shapes x hosts x co-occurring      *)
(* attributes and directives.                                              *)
(***************************************************************************)
EXTENDS Source, Json, IOUtils, SequencesExt

CONSTANTS Pairs    \* also enumerate pairs of directives on one element

S(cp) == Str(cp)
V1 == Ident("dv", FALSE, Opq("vdv"))
A1 == Ident("da", FALSE, S(<<113>>))

Spellings ==      \* <<style, words, colon-argument>>
  {<<"kebab", <<"foo">>, "">>, <<"camel", <<"foo">>, "">>, <<"kebab", <<"foo", "bar">>, "">>,
   <<"camel", <<"foo", "bar">>, "">>, <<"kebab", <<"foo">>, "x">>, <<"kebab", <<"show">>, "">>,
   <<"camel", <<"show">>, "">>,
   \* names that themselves begin with the letter v (only the `v-` / `v` prefix is removed)
   <<"kebab", <<"validate">>, "">>, <<"kebab", <<"view", "box">>, "x">>, <<"camel", <<"visible">>, "">>}
ModSuffixes == {<<>>, <<"a">>, <<"a", "b">>}

ValueShapes(hasColonArg, hasSuffixMods) ==
  {AvExpr(V1), AvExpr(Call("dc", S(<<99>>))), AvStr(<<"a", "sp", "b">>), AvNone,
   AvArr(V1, FALSE, Undefined, FALSE, <<>>),
   AvArr(ArrLit(<<V1, Lit(Num(1))>>), FALSE, Undefined, FALSE, <<>>),           \* v-foo={[[v, 1]]}: the value is the array
   AvArr(ArrLit(<<ArrLit(<<V1>>)>>), FALSE, Undefined, FALSE, <<>>)}
  \* an argument both in the name and in the array: the property does not rank them (either is accepted, Denote!DirArg);
  \* the modifier list of the array and the `_suffix` modifiers are never combined in one directive
  \cup {AvArr(V1, TRUE, A1, FALSE, <<>>)}
  \cup (IF hasColonArg THEN {} ELSE {AvArr(V1, TRUE, Lit(S(<<122>>)), FALSE, <<>>)})
  \cup (IF hasSuffixMods THEN {} ELSE {AvArr(V1, FALSE, Undefined, TRUE, <<"m", "n">>), AvArr(V1, FALSE, Undefined, TRUE, <<>>),
                                       AvArr(V1, TRUE, A1, TRUE, <<"m">>)})
  \cup (IF hasColonArg \/ hasSuffixMods THEN {} ELSE {AvArr(ArrLit(<<V1, A1>>), TRUE, A1, TRUE, <<"m">>)})

Dirs == {Dir(sp[1], sp[2], sp[3], ms, val) :
           sp \in Spellings, ms \in ModSuffixes, val \in UNION {ValueShapes(a, m) : a \in BOOLEAN, m \in BOOLEAN}}
ValidDir(d) == d.val \in ValueShapes(d.arg # "", d.mods # <<>>)

Companions == {<<>>, <<Plain("id", AvExpr(Ident("u1", FALSE, Num(7))))>>, <<Plain("class", AvStr(<<"c">>))>>,
               <<Plain("ref", AvExpr(Ident("r1", FALSE, Opq("vr1"))))>>,
               <<VHtml(AvExpr(Ident("hh", FALSE, S(<<104>>))))>>, <<VText(AvStr(<<"a", "sp">>))>>,
               <<VHtml(AvStr(<<"b">>))>>, <<VText(AvExpr(Call("tt", S(<<116>>))))>>,
               <<VHtml(AvArr(ArrLit(<<Ident("hh", FALSE, S(<<104>>)), Lit(Num(2))>>), FALSE, Undefined, FALSE, <<>>))>>,
               <<VText(AvArr(Ident("hh", FALSE, S(<<104>>)), FALSE, Undefined, FALSE, <<>>))>>,
               \* a JSX element as an attribute value (with a directive of its own): the host keeps its directives
               <<Plain("icon", AvElem(Elem(TagHtml("i"), <<Plain("class", AvStr(<<"c">>))>>, <<>>)))>>,
               <<Plain("icon", AvElem(Elem(TagHtml("i"), <<Dir("kebab", <<"show">>, "", <<>>, AvExpr(Ident("sv", FALSE, Bool(TRUE))))>>, <<>>)))>>}
Hosts == {TagHtml("div"), TagComp("Foo", TRUE, Opq("vFoo"))}
Kids  == {<<>>, <<ChText(<<"a">>), ChExpr(Ident("cu", FALSE, S(<<115>>)))>>}

Single == {[tag |-> h, attrs |-> pre \o <<d>> \o post, children |-> ks] :
             h \in Hosts, d \in {d \in Dirs : ValidDir(d)}, pre \in {<<>>}, post \in Companions, ks \in {<<>>}}
          \cup {[tag |-> h, attrs |-> co \o <<d>>, children |-> ks] :
             h \in Hosts, d \in {Dir("kebab", <<"foo">>, "", <<>>, AvExpr(V1)), Dir("camel", <<"foo", "bar">>, "x", <<"a">>, AvExpr(V1))},
             co \in Companions, ks \in Kids}
Base == {Dir("kebab", <<"foo">>, "", <<>>, AvExpr(V1)), Dir("camel", <<"bar">>, "", <<"a">>, AvArr(V1, TRUE, A1, FALSE, <<>>)),
         Dir("kebab", <<"show">>, "", <<>>, AvExpr(Ident("sv", FALSE, Bool(TRUE)))),
         Dir("kebab", <<"foo", "bar">>, "x", <<>>, AvStr(<<"a">>))}
Double == IF Pairs THEN {[tag |-> h, attrs |-> <<d1, d2>>, children |-> <<>>] : h \in Hosts, d1 \in Base, d2 \in Base} ELSE {}
OnlyHtmlText == {[tag |-> h, attrs |-> co, children |-> <<>>] : h \in Hosts, co \in Companions \ {<<>>}}

Opts == {[DefaultOpts EXCEPT !.optimize = opt, !.mergeProps = mp] : opt \in BOOLEAN, mp \in {TRUE}}

CaseSeq ==
  LET raw == SetToSeq((Single \cup Double \cup OnlyHtmlText) \X Opts) IN
  [i \in 1..Len(raw) |->
     [case |-> "C04-" \o ToString(i), prop |-> "C04", opts |-> raw[i][2],
      items |-> << [k |-> "export_jsx", name |-> "s1", ctx |-> "module",
                    elem |-> Elem(raw[i][1].tag, raw[i][1].attrs, raw[i][1].children)] >>]]

ASSUME PrintT(<<"CASES", Len(CaseSeq)>>)
ASSUME ndJsonSerialize(IOEnv.CASES_OUT, CaseSeq)
VARIABLE x
Init == x = 0
Next == x' = x
=============================================================================
