CONSTANTS
  CfgSample = "axis"
INIT Init
NEXT Next
