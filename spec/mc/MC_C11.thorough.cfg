CONSTANTS
  MaxAttrs = 2
  MaxKids = 2
  AttrKinds = {"call", "member", "class", "style", "onClick", "spread", "spreadid", "objlit", "on", "dir", "vmodel", "vmodelc", "vmodels"}
  KidKinds = {"call", "member", "trivial", "text", "elem", "comp", "direlem", "spreadarr", "parencall"}
  OptCombos = {"TTT", "FFF", "TFF", "FTT"}
  AttrKinds3 = {"call", "member", "class", "style", "onClick", "spread", "on", "objlit", "vmodel", "vmodels"}
  KidKinds3 = {"call", "comp", "elem"}
INIT Init
NEXT Next
