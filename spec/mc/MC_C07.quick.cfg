CONSTANTS
  OptSets = {"default", "optimize", "all"}
  Depths = {5, 40}
INIT Init
NEXT Next
