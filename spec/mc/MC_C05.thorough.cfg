CONSTANTS
  MaxList = 3
INIT Init
NEXT Next
