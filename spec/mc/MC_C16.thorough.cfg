CONSTANTS
  Depth2 = TRUE
INIT Init
NEXT Next
