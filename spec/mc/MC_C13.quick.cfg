CONSTANTS
  MaxAttrs = 2
  Names3 = {}
  WithInput = FALSE
  TreeDepth = 1
INIT Init
NEXT Next
