CONSTANTS
  MaxAttrs = 2
  Names3 = {}
  TreeDepth = 1
INIT Init
NEXT Next
