CONSTANTS
  MaxText = 4
  MaxTextPos = 3
  MaxChildren = 3
  Alphabet = {"sp", "tab", "lf", "cr", "crlf", "nbsp", "ideo", "ls", "a", "b", "amp", "nbspE", "lfE"}
INIT Init
NEXT Next
