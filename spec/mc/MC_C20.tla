-------------------------------- MODULE MC_C20 --------------------------------
(***************************************************************************)
(* C20 — only Vue's defineComponent is augmented, the user's options win.  *)
(* Call shapes x provenance of the callee x declaration kinds x            *)
(* resolveType on/off.                                                     *)
(***************************************************************************)
EXTENDS Source, Json, IOUtils, SequencesExt

S(cp) == Str(cp)
UP == Arr(<<S(<<117>>)>>)         \* the user's own props: ['u']
UE == Arr(<<S(<<120>>)>>)         \* the user's own emits: ['x']
UN == S(<<78>>)                   \* the user's own name: 'N'

(* options argument: <<shape, the value the user's options have at runtime (Obj) or Null when absent>> *)
Shapes == {
  <<"none", Null>>, <<"empty", Obj(<<>>)>>,
  <<"props", Obj(<< <<"props", UP>> >>)>>, <<"props_quoted", Obj(<< <<"props", UP>> >>)>>,
  <<"emits", Obj(<< <<"emits", UE>> >>)>>, <<"emits_quoted", Obj(<< <<"emits", UE>> >>)>>,
  <<"name", Obj(<< <<"name", UN>> >>)>>, <<"name_quoted", Obj(<< <<"name", UN>> >>)>>,
  <<"all", Obj(<< <<"name", UN>>, <<"props", UP>>, <<"emits", UE>> >>)>>,
  <<"name_shorthand", Obj(<< <<"name", UN>> >>)>>, <<"props_shorthand", Obj(<< <<"props", UP>> >>)>>, <<"emits_shorthand", Obj(<< <<"emits", UE>> >>)>>,
  <<"all_shorthand", Obj(<< <<"emits", UE>>, <<"name", UN>>, <<"props", UP>> >>)>>,        \* { emits, name, props } with those variables in scope
  <<"inheritAttrs", Obj(<< <<"inheritAttrs", Bool(FALSE)>> >>)>>,
  <<"spread_only", Obj(<< <<"props", UP>>, <<"name", UN>> >>)>>,          \* { ...o }            o = { props: ['u'], name: 'N' }
  <<"spread_then_emits", Obj(<< <<"props", UP>>, <<"name", UN>>, <<"emits", UE>> >>)>>,   \* { ...o, emits: ['x'] }
  <<"emits_then_spread", Obj(<< <<"emits", UE>>, <<"props", UP>>, <<"name", UN>> >>)>>,   \* { emits: ['x'], ...o }
  <<"two_spreads_oe", Obj(<< <<"props", UP>>, <<"name", UN>> >>)>>,     \* { ...o, ...e }
  <<"two_spreads_eo", Obj(<< <<"props", UP>>, <<"name", UN>> >>)>>,     \* { ...e, ...o }
  <<"two_spreads_om", Obj(<< <<"props", UP>>, <<"name", UN>>, <<"emits", UE>> >>)>>,   \* { ...o, ...mk() }
  <<"spread_empty", Obj(<<>>)>>,                                           \* { ...e }            e = {}
  <<"ident", Obj(<< <<"props", UP>>, <<"name", UN>> >>)>>,                 \* o
  <<"ident_empty", Obj(<<>>)>>,                                            \* e
  <<"call", Obj(<< <<"emits", UE>> >>)>>,                                  \* mk()
  <<"nested", Obj(<<>>)>>,                                                 \* { components: { Row: defineComponent((p: { b?: string }) => () => null) } }
  <<"spread_args", Obj(<< <<"props", UP>> >>)>>,
  <<"spread_args_one", Null>>,                                             \* defineComponent(...args1) with args1 = [setup]                           \* defineComponent(...args)
  <<"nonfn_first", Null>>                                                  \* defineComponent({ setup() {…}, props: ['u'] })
}
Provenances == {"vue_named", "vue_alias", "vue_namespace", "local_function", "shadowed_param", "other_module", "alias_plus_other", "alias_plus_local"}
DeclKinds == {"const", "let", "var", "export_const", "export_default", "assignment", "bare"}

Raw == {[shape |-> sh[1], user |-> sh[2], prov |-> pv, decl |-> dk, resolveType |-> rt] :
          sh \in Shapes, pv \in Provenances, dk \in DeclKinds, rt \in BOOLEAN}

CaseSeq ==
  LET raw == SetToSeq(Raw) IN
  [i \in 1..Len(raw) |->
     [case |-> "C20-" \o ToString(i), prop |-> "C20", lang |-> "tsx", tscase |-> "call",
      shape |-> raw[i].shape, user |-> raw[i].user, prov |-> raw[i].prov, decl |-> raw[i].decl,
      opts |-> [transformOn |-> FALSE, optimize |-> FALSE, mergeProps |-> TRUE, enableObjectSlots |-> TRUE, resolveType |-> raw[i].resolveType,
                patterns |-> <<>>, pragma |-> ""]]]

ASSUME PrintT(<<"CASES", Len(CaseSeq)>>)
ASSUME ndJsonSerialize(IOEnv.CASES_OUT, CaseSeq)
VARIABLE x
Init == x = 0
Next == x' = x
=============================================================================
