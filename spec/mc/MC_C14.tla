-------------------------------- MODULE MC_C14 --------------------------------
(***************************************************************************)
(* C14 — every configuration (2^5 booleans x pattern list x pragma) in the *)
(* JSON spellings of Options.tla, applied to modules classified by the     *)
(* features they use.  Judge_C14 compares the recorded outputs.            *)
(***************************************************************************)
EXTENDS Source, Options, IOUtils, SequencesExt

CONSTANTS CfgSample     \* "all" or "axis" (default +- one/two options)

S(cp) == Str(cp)
(* under transformOn an on/nativeOn object takes part in the props like a spread, so such modules use the *)
(* merge feature as well                                                                                  *)
J(name, el) == << [k |-> "export_jsx", name |-> name, ctx |-> "module", elem |-> el] >>
H1 == Ident("h1", FALSE, Fn("h1"))
Modules == {
  [id |-> "plain", uses |-> {}, lang |-> "jsx", items |-> J("s1", Elem(TagHtml("div"), <<Plain("id", AvStr(<<"a">>))>>, <<ChText(<<"a">>)>>))],
  [id |-> "on", uses |-> {"on", "merge"}, lang |-> "jsx", items |-> J("s1", Elem(TagHtml("div"), <<Plain("on", AvExpr(ObjLit(<< <<"click", H1>> >>)))>>, <<>>))],
  [id |-> "nativeon", uses |-> {"on", "merge"}, lang |-> "jsx",
   items |-> J("s1", Elem(TagHtml("div"), <<Plain("nativeOn", AvExpr(ObjLit(<< <<"foo", H1>> >>))), Plain("id", AvExpr(Ident("u1", FALSE, Num(7))))>>, <<>>))],
  [id |-> "spread", uses |-> {"merge"}, lang |-> "jsx",
   items |-> J("s1", Elem(TagHtml("div"), <<Plain("class", AvStr(<<"c">>)), Spread(Ident("sp1", FALSE, Obj(<< <<"class", S(<<101>>)>> >>)))>>, <<>>))],
  [id |-> "repeat", uses |-> {"merge"}, lang |-> "jsx",
   items |-> J("s1", Elem(TagHtml("div"), <<Plain("class", AvStr(<<"a">>)), Plain("class", AvExpr(Ident("k1", FALSE, S(<<100>>))))>>, <<>>))],
  [id |-> "identchild", uses |-> {"objslot"}, lang |-> "jsx",
   items |-> J("s1", Elem(TagComp("Foo", FALSE, Undef), <<>>, <<ChExpr(Ident("cu", FALSE, PVNode("pv")))>>))],
  [id |-> "callchild", uses |-> {"objslot"}, lang |-> "jsx",
   items |-> J("s1", Elem(TagComp("Foo", FALSE, Undef), <<>>, <<ChExpr(Call("g1", PVNode("pv")))>>))],
  [id |-> "twochildren", uses |-> {}, lang |-> "jsx",
   items |-> J("s1", Elem(TagComp("Foo", FALSE, Undef), <<>>, <<ChExpr(Ident("cu", FALSE, PVNode("pv"))), ChText(<<"a">>)>>))],
  [id |-> "customtag", uses |-> {"customtag"}, lang |-> "jsx",
   items |-> J("s1", Elem(TagCustom("i-foo"), <<Plain("a", AvStr(<<"a">>))>>, <<ChText(<<"b">>)>>))],
  [id |-> "widget", uses |-> {"objslot"}, lang |-> "jsx",       \* no single pattern matches `Widget`
   items |-> J("s1", Elem(TagCustom("Widget"), <<>>, <<ChExpr(Ident("cu", FALSE, PVNode("pv")))>>))],
  \* member tags whose last name a pattern would match: patterns are matched against whole tag names of plain tags only
  [id |-> "membertag", uses |-> {}, lang |-> "jsx",
   items |-> J("s1", Elem(TagMember("o2", "widget", Opq("vo2widget")), <<Plain("class", AvExpr(Ident("k1", FALSE, S(<<100>>))))>>, <<ChText(<<"b">>)>>))],
  [id |-> "membertagslot", uses |-> {"objslot"}, lang |-> "jsx",
   items |-> J("s1", Elem(TagMember("o2", "widget", Opq("vo2widget")), <<>>, <<ChExpr(Ident("cu", FALSE, PVNode("pv")))>>))],
  [id |-> "othertag", uses |-> {}, lang |-> "jsx",
   items |-> J("s1", Elem(TagCustom("x-bar"), <<>>, <<ChText(<<"b">>)>>))],
  \* further modules given as text: features no option governs (directives, fragments, SVG, KeepAlive, nested functions)
  [id |-> "fragment", uses |-> {}, lang |-> "jsx", items |-> << [k |-> "raw", text |-> "export const s = <><b/>t</>;"] >>],
  [id |-> "vmodel", uses |-> {}, lang |-> "jsx", items |-> << [k |-> "raw", text |-> "export const s = <input v-model={x} />;"] >>],
  [id |-> "vmodelcomp", uses |-> {}, lang |-> "jsx", items |-> << [k |-> "raw", text |-> "export const s = <Foo v-model:title_trim={x} />;"] >>],
  [id |-> "vcustom", uses |-> {}, lang |-> "jsx", items |-> << [k |-> "raw", text |-> "export const s = <div v-foo:arg_mod={x} />;"] >>],
  [id |-> "vhtml", uses |-> {}, lang |-> "jsx", items |-> << [k |-> "raw", text |-> "export const s = <div v-html={h} id=\"a\" />;"] >>],
  [id |-> "keepalive", uses |-> {}, lang |-> "jsx", items |-> << [k |-> "raw", text |-> "import { KeepAlive } from 'vue';\nexport const s = <KeepAlive>{cu}</KeepAlive>;"] >>],
  [id |-> "vslots", uses |-> {"objslot"}, lang |-> "jsx", items |-> << [k |-> "raw", text |-> "export const s = <Foo v-slots={sl}>{cu}</Foo>;"] >>],
  [id |-> "svg", uses |-> {}, lang |-> "jsx", items |-> << [k |-> "raw", text |-> "export const s = <svg><path d=\"M0\"/></svg>;"] >>],
  [id |-> "nestedfn", uses |-> {}, lang |-> "jsx", items |-> << [k |-> "raw", text |-> "export function f(a) { return () => <div class={a}>{a}</div>; }"] >>],
  [id |-> "onboth", uses |-> {"on", "merge"}, lang |-> "jsx", items |-> << [k |-> "raw", text |-> "export const s = <Foo onClick={h} on={o} />;"] >>],
  [id |-> "twospreads", uses |-> {"merge"}, lang |-> "jsx", items |-> << [k |-> "raw", text |-> "export const s = <div {...a} {...b} />;"] >>],
  [id |-> "nojsx", uses |-> {}, lang |-> "jsx", items |-> << [k |-> "raw", text |-> "const q = 1;\nexport default q;"] >>],
  [id |-> "definecomponent", uses |-> {"definecomponent"}, lang |-> "tsx",
   items |-> << [k |-> "raw", text |-> "import { defineComponent } from 'vue';\nexport const C = defineComponent((props: { a?: string, b: number }) => () => <div>{props.a}</div>);"] >>],
  [id |-> "localdefine", uses |-> {}, lang |-> "tsx",
   items |-> << [k |-> "raw", text |-> "function defineComponent(x: any) { return x; }\nexport const C = defineComponent((props: { a?: string }) => () => <div>{props.a}</div>);"] >>],
  [id |-> "everything", uses |-> {"on", "merge", "objslot", "customtag"}, lang |-> "jsx",
   items |-> J("s1", Elem(TagCustom("i-foo"), <<Plain("on", AvExpr(ObjLit(<< <<"click", H1>> >>))), Spread(Ident("sp1", FALSE, Obj(<<>>)))>>,
                          <<ChElem(Elem(TagComp("Foo", FALSE, Undef), <<>>, <<ChExpr(Ident("cu", FALSE, PVNode("pv")))>>))>>))]
}

Near(c) == Cardinality({o \in DOMAIN c : c[o] # DefaultCfg[o]}) <= 2
Sampled == IF CfgSample = "all" THEN Cfgs ELSE {c \in Cfgs : Near(c)}

Spellings(c) ==
  {[spelling |-> "explicit", cfg |-> c, json |-> JsonText(Explicit(c)), valid |-> TRUE],
   [spelling |-> "minimal", cfg |-> c, json |-> JsonText(Minimal(c)), valid |-> TRUE],
   [spelling |-> "unknown", cfg |-> c, json |-> JsonText(Explicit(c) @@ [foo |-> 1, isCustomElement |-> "x", Optimize |-> TRUE]), valid |-> TRUE]}
Invalid == {[spelling |-> "invalid", cfg |-> DefaultCfg, json |-> "{\"customElementPatterns\":[\"(\"]}", valid |-> FALSE],
            [spelling |-> "invalid", cfg |-> DefaultCfg, json |-> "{\"optimize\":true,\"customElementPatterns\":[\"^i-\",\"[a-\"]}", valid |-> FALSE]}

Raw == {<<m, sp>> : m \in Modules, sp \in (UNION {Spellings(c) : c \in Sampled}) \cup Invalid}

CaseSeq ==
  LET raw == SetToSeq(Raw) IN
  [i \in 1..Len(raw) |->
     LET m == raw[i][1]  sp == raw[i][2] IN
     [case |-> "C14-" \o m.id \o "#" \o ToString(i), prop |-> "C14", lang |-> m.lang, items |-> m.items, uses |-> SetToSeq(m.uses),
      opts |-> DefaultOpts, optsJson |-> sp.json, cfg |-> sp.cfg, spelling |-> sp.spelling, valid |-> sp.valid, pragmas |-> <<"hh">>]]

ASSUME PrintT(<<"CASES", Len(CaseSeq)>>)
ASSUME ndJsonSerialize(IOEnv.CASES_OUT, CaseSeq)
VARIABLE x
Init == x = 0
Next == x' = x
=============================================================================
