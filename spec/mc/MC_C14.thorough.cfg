CONSTANTS
  CfgSample = "all"
INIT Init
NEXT Next
