#!/bin/bash
# tools/sweep_seeds.sh : apply every stored seeded change that still applies to /repo's HEAD, run the quick check of the
# property it was written against, and report exit codes (1 = detected).  Output: one line per seed.
cd /verif
for d in seeded/*/; do
  id=$(basename "$d")
  p="$d/patch_ported.diff"; [ -f "$p" ] || p="$d/patch.diff"
  prop=$(python3 -c "import json,sys; print(json.load(open('$d/meta.json'))['property'][:3])" 2>/dev/null)
  [ -z "$prop" ] && prop=${id:0:3}
  if ! git -C /repo apply --check "$(realpath $p)" 2>/dev/null; then echo "$id $prop does-not-apply"; continue; fi
  tools/mutant.sh "$p" "$prop" | sed "s/^[a-z_]*\.diff/$id/" | cut -c1-160
done
