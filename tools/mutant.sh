#!/bin/bash
# tools/mutant.sh <patch.diff> <Cxx> [<Cxx>...] : apply a seeded change to /repo, run the quick
# checks, undo it.  Prints one line per check: "<patch> <Cxx> exit=<n>" (1 = detected).
set -u
patch=$(realpath "$1"); shift
cd /verif
if ! git -C /repo diff --quiet; then echo "refusing: /repo has uncommitted changes"; exit 2; fi
git -C /repo apply "$patch" || { echo "patch does not apply: $patch"; exit 2; }
# the evidence files are rewritten by every run: keep the ones of the last run on the unchanged tree
ev=$(mktemp -d /tmp/verif-evidence.XXXXXX); cp evidence/*.json "$ev"/
trap 'git -C /repo checkout -- . ; git -C /repo clean -fdq visitor/tests >/dev/null 2>&1; cp "$ev"/*.json /verif/evidence/; rm -rf "$ev"' EXIT
for id in "$@"; do
  out=$(./check "$id" --tier "${TIER:-quick}" 2>/dev/null); rc=$?
  echo "$(basename "$patch") $id exit=$rc $(echo "$out" | grep -c '^VIOLATION') violation lines; $(echo "$out" | grep '^VIOLATION' | head -2 | sed 's/.*#//' | tr '\n' ';')"
done
