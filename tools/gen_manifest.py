#!/usr/bin/env python3
"""Regenerate MANIFEST.json from harness/py/props.py (claimed = wired there) and properties.jsonl."""
import json, os, sys
HERE = os.path.dirname(os.path.dirname(os.path.abspath(__file__)))
sys.path.insert(0, os.path.join(HERE, "harness", "py"))
import props as PR
props = [json.loads(l) for l in open(os.path.join(HERE, "properties.jsonl"))]
import subprocess
hooks_commits = [l.split()[0] for l in subprocess.check_output(["git", "-C", "/repo", "log", "--format=%h %s"]).decode().splitlines() if l.split(" ", 1)[1].startswith("verif:")][::-1]
checks = []
for p in props:
    pid = p["id"]
    if pid not in PR.PROPS:
        continue
    cfg = PR.PROPS[pid]
    checks.append(dict(
        property_id=pid, quick_cmd=f"./check {pid} --tier quick", thorough_cmd=f"./check {pid} --tier thorough",
        evidence_file=f"evidence/{pid}.json", replay_cmd_template=f"./check {pid} --replay {{path}}", engine="tlc-spec-conformance",
        level_claimed=dict(category="model_checking", design_ref=cfg.get("design_ref", "DESIGN.md §6 " + pid),
                           text=cfg.get("level_text", "TLC explores/enumerates the quantified space exhaustively within the cfg bounds from the explicit TLA+ specification; "
                                "every explored behaviour is replayed through the real transform (and its output executed), and TLC validates each "
                                "recorded behaviour of the real code against the specification (trace validation, one verdict per case).")),
        level_note=cfg.get("level_note", "bounded-exhaustive, not a proof; mock Vue runtime cross-checked against spec/Values.tla; swc parser/resolver/codegen and node trusted"),
        technique=cfg.get("technique", "explicit TLA+ spec; TLC model checking + spec->impl replay + impl->spec trace validation")))
m = dict(
    version=1,
    setup_cmd="cd harness/driver && CARGO_NET_OFFLINE=true cargo build --offline --quiet",
    hooks=dict(guard="cargo feature `verif-trace` of swc-vue-jsx-visitor (visitor/Cargo.toml [features])",
               enable="harness/driver/Cargo.toml depends on /repo/visitor with features=[\"verif-trace\"]; every check rebuilds it from /repo's working tree",
               baseline_off_cmd="cd /repo && cargo test --workspace --no-fail-fast --offline",
               source_commits=hooks_commits, add_only=True),
    engines=[dict(name="tlc-spec-conformance", path="check", serves_properties=[c["property_id"] for c in checks],
                  kind_free_text="TLA+ specification (spec/*.tla) checked with TLC; conformance harness = Rust driver on the real visitor + node runtime observer; judges are TLC trace specs")],
    checks=checks,
    not_applicable=[dict(property_id=p["id"], reason=PR.NOT_APPLICABLE.get(p["id"], "check not built yet in this revision (planned procedure: DESIGN.md §6)"))
                    for p in props if p["id"] not in PR.PROPS],
    notes="All verdicts are TLC evaluating specification predicates on recorded behaviours of the real code. See DESIGN.md.")
json.dump(m, open(os.path.join(HERE, "MANIFEST.json"), "w"), indent=1)
print("claimed:", [c["property_id"] for c in checks])
