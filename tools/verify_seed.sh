#!/bin/bash
# tools/verify_seed.sh <worktree> : confirm a sub-agent's seeded change in its scratch worktree:
#  (a) with the change the existing 81 tests pass, (b) its demo fails, (c) without it the demo passes.
wt=$1; cd "$wt" || exit 2
res=$wt/SEEDED/verify.txt; : > "$res"
git checkout -q -- visitor/src
cp SEEDED/seeded_demo.rs visitor/tests/seeded_demo.rs 2>/dev/null
export CARGO_NET_OFFLINE=true
cargo test -p swc-vue-jsx-visitor --test seeded_demo --offline >/tmp/vs_$$.log 2>&1; echo "clean demo exit=$?" >> "$res"
git apply SEEDED/patch.diff || { echo "patch does not apply" >> "$res"; exit 1; }
cargo test -p swc-vue-jsx-visitor --test seeded_demo --offline >/tmp/vs_$$.log 2>&1; echo "mutant demo exit=$?" >> "$res"
cargo test -p swc-vue-jsx-visitor --test fixture --offline 2>&1 | grep "test result" >> "$res"
git checkout -q -- visitor/src
rm -rf target /tmp/vs_$$.log
cat "$res"
