#!/bin/bash
# re-insert tools/design_sec0.md as section 0 of DESIGN.md
cd /verif && python3 - <<'PY'
import re
s=open('DESIGN.md').read()
sec0=open('tools/design_sec0.md').read()
s=re.sub(r'## 0\. What was built.*?(?=## 1\. What is being verified)', '', s, flags=re.S)
s=s.replace('## 1. What is being verified', sec0+'\n---------------------------------------------------------------------------------------------------\n\n## 1. What is being verified',1)
open('DESIGN.md','w').write(s)
PY
