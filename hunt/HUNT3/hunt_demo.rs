use std::rc::Rc;
use swc_core::{
    common::{comments::SingleThreadedComments, errors::HANDLER, Mark},
    ecma::{
        ast::Program,
        parser::{EsSyntax, Syntax, TsSyntax},
        transforms::{
            base::{fixer::fixer, hygiene::hygiene, resolver},
            testing::Tester,
        },
        visit::visit_mut_pass,
    },
};
use swc_vue_jsx_visitor::{Options, VueJsxTransformVisitor};

struct Noop;
impl swc_core::ecma::visit::VisitMut for Noop {}

struct Outcome {
    /// printed output (after hygiene + fixer, like the fixture tests)
    code: String,
    /// whether the transform reported at least one error diagnostic
    has_errors: bool,
    /// whether the printed output parses again as a plain (non-JSX) module
    reparses: bool,
}

fn opts(json: &str) -> Options {
    serde_json::from_str(json).unwrap()
}

fn run(src: &str, is_ts: bool, options: Options) -> Outcome {
    run_full(src, is_ts, options, true)
}

fn run_full(src: &str, is_ts: bool, options: Options, is_module: bool) -> Outcome {
    let src = src.to_string();
    testing::run_test2(false, |cm, handler| {
        HANDLER.set(&handler, || {
            let comments = Rc::new(SingleThreadedComments::default());
            let mut tester = Tester {
                cm,
                handler: &handler,
                comments: comments.clone(),
            };
            let syntax = if is_ts {
                Syntax::Typescript(TsSyntax {
                    tsx: true,
                    ..Default::default()
                })
            } else {
                Syntax::Es(EsSyntax {
                    jsx: true,
                    ..Default::default()
                })
            };
            let unresolved_mark = Mark::new();
            let tr = (
                resolver(unresolved_mark, Mark::new(), is_ts),
                visit_mut_pass(VueJsxTransformVisitor::new(
                    options,
                    unresolved_mark,
                    Some(comments.clone()),
                )),
            );
            // parse first (a parse failure is not the transform's business), then transform
            let parsed = tester.apply_transform(
                swc_core::ecma::visit::visit_mut_pass(Noop),
                "input.js",
                syntax,
                Some(is_module),
                &src,
            );
            let Ok(parsed) = parsed else {
                return Ok(Outcome {
                    code: "<<input does not parse>>".into(),
                    has_errors: true,
                    reparses: false,
                });
            };
            if handler.has_errors() {
                return Ok(Outcome {
                    code: "<<input does not parse>>".into(),
                    has_errors: true,
                    reparses: false,
                });
            }
            let program: Program = parsed.apply(tr);
            let has_errors = handler.has_errors();
            let post = std::panic::catch_unwind(std::panic::AssertUnwindSafe(|| {
                let program = program.apply(hygiene()).apply(fixer(Some(&*comments)));
                tester.print(&program, &comments)
            }));
            let code = match post {
                Ok(code) => code,
                Err(_) => {
                    return Ok(Outcome {
                        code: POST_PASS_PANIC.into(),
                        has_errors,
                        reparses: false,
                    })
                }
            };

            let plain = if is_ts {
                Syntax::Typescript(TsSyntax {
                    tsx: false,
                    ..Default::default()
                })
            } else {
                Syntax::Es(EsSyntax {
                    jsx: false,
                    ..Default::default()
                })
            };
            let errors_before = handler.err_count();
            let reparsed = tester
                .with_parser("output.js", plain, &code, |p| {
                    if is_module {
                        p.parse_module().map(|_| ())
                    } else {
                        p.parse_script().map(|_| ())
                    }
                })
                .is_ok();
            let reparses = reparsed && handler.err_count() == errors_before;
            Ok(Outcome {
                code,
                has_errors,
                reparses,
            })
        })
    })
    .unwrap()
}

fn run_js(src: &str, options: &str) -> Outcome {
    run(src, false, opts(options))
}

fn run_ts(src: &str, options: &str) -> Outcome {
    run(src, true, opts(options))
}

/// the printed output without any white space
fn squeeze(code: &str) -> String {
    code.chars().filter(|c| !c.is_whitespace()).collect()
}

const POST_PASS_PANIC: &str = "<<post-pass (hygiene/fixer/codegen) panicked>>";


// ---------------------------------------------------------------------------------------------
// C14: `mergeProps` must only influence elements with a spread or a repeated attribute.
// `<div onClick={g} on={{click: f}} />` has neither, but under `transformOn` its output (and its
// run-time meaning: merged listeners vs. `on` overriding `onClick`) depends on `mergeProps`.
#[test]
fn c14_merge_props_changes_element_without_spread_or_repeated_attribute() {
    let src = "const a = <div onClick={g} on={{click: f}} />;";
    let on = run_js(src, r#"{"transformOn":true,"mergeProps":true}"#);
    let off = run_js(src, r#"{"transformOn":true,"mergeProps":false}"#);
    assert!(!on.has_errors && !off.has_errors);
    assert_eq!(
        on.code, off.code,
        "mergeProps changed the output of an element without spread / repeated attribute"
    );
}

// ---------------------------------------------------------------------------------------------
// C15 (and C07 in spirit): a program that SWC parses as a *script* (CommonJS file, `isModule:
// false | "unknown"`) is only half transformed: `visit_mut_module` is the only place where the
// `vue` import, the `_isSlot` helper and the `@jsx` lookup happen, so the output calls
// `_createVNode` / `_createTextVNode` which are bound nowhere, and a `@jsx` comment is ignored.
#[test]
fn c15_script_program_gets_no_create_vnode_binding() {
    let out = run_full(
        "module.exports = () => <div>hi</div>;",
        false,
        opts("{}"),
        false,
    );
    assert!(!out.has_errors);
    assert!(out.code.contains("_createVNode("), "{}", out.code);
    assert!(
        out.code.contains("from \"vue\"") || out.code.contains("require(\"vue\")"),
        "createVNode is called but never imported from 'vue':\n{}",
        out.code
    );
}

#[test]
fn c15_script_program_ignores_jsx_pragma_comment() {
    let out = run_full(
        "/* @jsx h */\nmodule.exports = () => <div/>;",
        false,
        opts("{}"),
        false,
    );
    assert!(!out.has_errors);
    assert!(
        squeeze(&out.code).contains("h(\"div\""),
        "the @jsx annotation at the head of the file was ignored:\n{}",
        out.code
    );
}

// ---------------------------------------------------------------------------------------------
// C07 / C15: the `pragma` option is used verbatim as an identifier. A multi-word value gives text
// that is not a program, the empty string gives a parenthesised sequence instead of a call, and no
// diagnostic is reported.
#[test]
fn c07_multi_word_pragma_option_emits_invalid_program() {
    let out = run_js("const a = <div/>;", r#"{"pragma":"a b"}"#);
    assert!(
        out.has_errors || out.reparses,
        "no error reported, but the output is not a program:\n{}",
        out.code
    );
}

#[test]
fn c15_empty_pragma_option_emits_no_call_at_all() {
    let out = run_js("const a = <div/>;", r#"{"pragma":""}"#);
    // either rejected, or treated like "no pragma"
    assert!(
        out.has_errors || out.code.contains("_createVNode(\"div\""),
        "the element is not created by any factory call:\n{}",
        out.code
    );
}

// C07: the `@jsx` name is only checked to be made of identifier characters; a reserved word is
// taken as the factory and printed as a callee.
#[test]
fn c07_reserved_word_pragma_comment_emits_invalid_program() {
    let out = run_js("/* @jsx class */\nconst a = <div/>;", "{}");
    assert!(
        out.has_errors || out.reparses,
        "no error reported, but the output is not a program:\n{}",
        out.code
    );
}

// ---------------------------------------------------------------------------------------------
// C15: a `@jsx <name>` annotation in a comment at the head of the file must select the factory.
// Only annotations that start a comment line are recognised: after another `@jsx*` tag (or any
// other text) on the same line the annotation is dropped, although the other tags "have no effect".
#[test]
fn c15_jsx_annotation_after_other_tag_on_same_line_is_ignored() {
    let out = run_js("/* @jsxRuntime classic @jsx h */\nconst a = <div/>;", "{}");
    assert!(
        squeeze(&out.code).contains("h(\"div\""),
        "the @jsx annotation was ignored:\n{}",
        out.code
    );
    assert!(!out.code.contains("createVNode"), "{}", out.code);
}

// C15: "... or before a top-level statement". SWC attaches a comment that follows a token on the
// same line to that token as a *trailing* comment; only leading comments are searched.
#[test]
fn c15_jsx_annotation_before_statement_on_same_line_is_ignored() {
    let out = run_js("foo(); /* @jsx h */ const a = <div/>;", "{}");
    assert!(
        squeeze(&out.code).contains("h(\"div\""),
        "the @jsx annotation before the second top-level statement was ignored:\n{}",
        out.code
    );
}

// ---------------------------------------------------------------------------------------------
// C13: the slot flag must be 2 (DYNAMIC) when a direct child is an identifier bound in the file.
// Parentheses are looked through, TypeScript wrappers (`s!`, `s as T`, `s satisfies T`) are not:
// the same child then yields `_: 1` for the slot and for every enclosing slot.
#[test]
fn c13_ts_wrapped_bound_identifier_child_gets_stable_slot_flag() {
    let plain = run_ts(
        "let s: any; const a = <A><B>{s}</B></A>;",
        r#"{"optimize":true,"enableObjectSlots":false}"#,
    );
    assert!(squeeze(&plain.code).contains("_:2"));
    assert!(!squeeze(&plain.code).contains("_:1"));

    let wrapped = run_ts(
        "let s: any; const a = <A><B>{s!}</B></A>;",
        r#"{"optimize":true,"enableObjectSlots":false}"#,
    );
    assert!(!wrapped.has_errors);
    assert!(
        !squeeze(&wrapped.code).contains("_:1"),
        "slot with a bound identifier child is flagged STABLE:\n{}",
        wrapped.code
    );
}

// C13: `undefined` is treated as a constant by name. Where it is an ordinary binding (parameter,
// module-level `let`), the prop changes between renders but gets neither the props bit nor an
// entry in the dynamic-prop list; the sibling dynamic prop makes the flag positive.
#[test]
fn c13_shadowed_undefined_prop_is_not_covered_by_patch_flag() {
    let out = run_js(
        "function f(undefined, b) { return <div a={undefined} b={b} /> }",
        r#"{"optimize":true}"#,
    );
    assert!(!out.has_errors);
    let code = squeeze(&out.code);
    assert!(code.contains(",8,["), "{}", out.code);
    assert!(
        code.contains("[\"a\",\"b\"]"),
        "prop `a` can differ between renders but is missing from the dynamic-prop list:\n{}",
        out.code
    );
}

// ---------------------------------------------------------------------------------------------
// C08: type resolution is exponential in the number of (non-recursive) alias declarations: every
// reference is resolved again and all members are cloned, so `T(n+1) = T(n) & T(n)` costs 2^n.
// 20 aliases already take seconds; 40 never finish (and exhaust memory). The depth guard does not
// help because the nesting depth stays small.
#[test]
fn c08_type_resolution_is_exponential() {
    let k = 20;
    let mut src = String::from("import { defineComponent } from 'vue';\ntype T0 = { a: string };\n");
    for i in 0..k {
        src.push_str(&format!("type T{} = T{} & T{};\n", i + 1, i, i));
    }
    src.push_str(&format!(
        "export default defineComponent((props: T{k}) => () => null);"
    ));
    let (tx, rx) = std::sync::mpsc::channel();
    std::thread::spawn(move || {
        let out = run_ts(&src, r#"{"resolveType":true}"#);
        let _ = tx.send(out.code);
    });
    // 22 one-line declarations: anything linear takes a few milliseconds
    let res = rx.recv_timeout(std::time::Duration::from_millis(1500));
    assert!(
        res.is_ok(),
        "resolving 20 chained type aliases did not finish within 1.5 s"
    );
}

// C08: "malformed directive usage is reported as a diagnostic rather than a crash". For a `v-model`
// value that is no assignment target the diagnostic is reported, but the value is still wrapped in
// `SimpleAssignTarget::Paren` on the left of `=`; SWC's own `fixer` pass - which always runs after
// a plugin - unwraps that node with `try_into().unwrap()` and panics, so the compilation crashes.
#[test]
fn c08_invalid_v_model_target_crashes_the_fixer() {
    let out = run_js("const a = <input v-model={foo()} />;", "{}");
    assert!(out.has_errors, "the diagnostic is reported");
    assert_ne!(
        out.code, POST_PASS_PANIC,
        "the emitted AST makes swc's fixer panic"
    );
}
