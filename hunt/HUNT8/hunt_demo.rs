use swc_core::{
    common::Mark,
    ecma::{
        parser::{Syntax, TsSyntax},
        transforms::{
            base::{fixer::fixer, hygiene::hygiene, resolver},
            testing::Tester,
        },
        visit::visit_mut_pass,
    },
};
use swc_vue_jsx_visitor::{Options, VueJsxTransformVisitor};

fn transform(src: &str, options: Options) -> String {
    Tester::run(|tester| {
        let unresolved_mark = Mark::new();
        let pass = (
            resolver(unresolved_mark, Mark::new(), true),
            visit_mut_pass(VueJsxTransformVisitor::new(
                options.clone(),
                unresolved_mark,
                Some(tester.comments.clone()),
            )),
        );
        let program = tester.apply_transform(
            pass,
            "input.tsx",
            Syntax::Typescript(TsSyntax {
                tsx: true,
                ..Default::default()
            }),
            Some(true),
            src,
        )?;
        let program = program
            .apply(hygiene())
            .apply(fixer(Some(&tester.comments)));
        let comments = tester.comments.clone();
        Ok(tester.print(&program, &comments))
    })
}

fn default_opts() -> Options {
    Options {
        optimize: true,
        ..Default::default()
    }
}

/// C03 / C11: `<A>{f()}</A>` directly nested in another component's children lives inside that
/// component's generated default slot function, which the component may invoke any number of
/// times. Every invocation evaluates `<A>{f()}</A>` anew, so every invocation needs its own
/// temporary; a temporary declared outside the slot function is shared by all invocations and the
/// `default: () => [_slot]` closures of earlier invocations return the value of the latest one.
#[test]
fn call_child_temporary_is_shared_between_invocations_of_the_enclosing_slot() {
    let out = transform(
        "import A from './a'; import B from './b';\n\
         export const render = () => <B><A>{f()}</A></B>;",
        default_opts(),
    );
    println!("{out}");
    let decl = out.find("let _slot").expect("temporary is declared");
    let outer_slot = out.find("default:").expect("B gets a default slot");
    assert!(
        decl > outer_slot,
        "`let _slot` is declared outside B's default slot function, so all invocations of that \
         slot share one temporary:\n{out}"
    );
}

/// C01 / C13: `import Btn = UI.Button` binds `Btn` in the module (like every import it is
/// in scope in the whole module). A use written above the declaration must denote that binding,
/// not a run-time lookup of a registered component called "Btn"; as a child identifier bound in
/// the file it also makes the slot dynamic (`_: 2`).
#[test]
fn import_equals_alias_used_above_its_declaration_is_a_bound_component() {
    let out = transform(
        "import * as UI from 'ui';\n\
         export const render = () => <Btn>{Btn}</Btn>;\n\
         import Btn = UI.Button;",
        default_opts(),
    );
    println!("{out}");
    assert!(
        !out.contains("resolveComponent"),
        "the bound alias `Btn` is looked up at run time by name:\n{out}"
    );
    assert!(out.contains("_: 2"), "bound identifier child must give a dynamic slot:\n{out}");
}

/// C01: the attribute `__proto__` denotes a prop of that name. In an object literal a
/// non-computed `"__proto__": x` entry does not define a property: it sets the prototype of the
/// props object (so the prop is absent and everything enumerable on `x` shows up as props).
#[test]
fn proto_attribute_sets_the_prototype_of_the_props_object() {
    let out = transform("export const a = <div __proto__={x} />;", default_opts());
    println!("{out}");
    let compact: String = out.chars().filter(|c| !c.is_whitespace()).collect();
    assert!(
        !compact.contains("{\"__proto__\":x}") && !compact.contains("{__proto__:x}"),
        "`__proto__` is emitted as a prototype setter, not as an own property:\n{out}"
    );
}
