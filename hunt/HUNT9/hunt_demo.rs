use swc_core::{
    common::Mark,
    ecma::{
        ast::Pass,
        parser::{EsSyntax, Syntax, TsSyntax},
        transforms::{
            base::{fixer::fixer, hygiene::hygiene, resolver},
            testing::Tester,
        },
        visit::visit_mut_pass,
    },
};
use swc_vue_jsx_visitor::{Options, VueJsxTransformVisitor};

fn syntax(ts: bool, jsx: bool) -> Syntax {
    if ts {
        Syntax::Typescript(TsSyntax { tsx: jsx, decorators: true, ..Default::default() })
    } else {
        Syntax::Es(EsSyntax { jsx, decorators: true, ..Default::default() })
    }
}

/// returns (printed output, had error diagnostics)
fn run(src: &str, opts: &str, ts: bool) -> (String, bool) {
    let options: Options = serde_json::from_str(opts).unwrap();
    Tester::run(|tester| {
        let unresolved_mark = Mark::new();
        let tr = (
            resolver(unresolved_mark, Mark::new(), ts),
            visit_mut_pass(VueJsxTransformVisitor::new(
                options.clone(),
                unresolved_mark,
                Some(tester.comments.clone()),
            )),
        );
        let program = tester.apply_transform(tr, "input.js", syntax(ts, true), Some(true), src)?;
        let had_err = tester.handler.has_errors();
        let program = program.apply(hygiene()).apply(fixer(Some(&tester.comments)));
        let out = tester.print(&program, &tester.comments.clone());
        if had_err {
            // swallow
            return Ok((out, true));
        }
        Ok((out, false))
    })
}

/// error diagnostics text (empty if none)
fn diagnostics(src: &str, opts: &str, ts: bool) -> String {
    let options: Options = serde_json::from_str(opts).unwrap();
    let src = src.to_string();
    let r = std::panic::catch_unwind(move || {
        Tester::run(|tester| {
            let unresolved_mark = Mark::new();
            let tr = (
                resolver(unresolved_mark, Mark::new(), ts),
                visit_mut_pass(VueJsxTransformVisitor::new(
                    options.clone(),
                    unresolved_mark,
                    Some(tester.comments.clone()),
                )),
            );
            let _ = tester.apply_transform(tr, "input.js", syntax(ts, true), Some(true), &src)?;
            if tester.handler.has_errors() { return Err(()); }
            Ok(())
        })
    });
    match r {
        Ok(()) => String::new(),
        Err(e) => e.downcast_ref::<String>().cloned().unwrap_or_else(|| "<panic>".into()),
    }
}

fn reparses(src: &str, ts: bool) -> bool {
    let r = std::panic::catch_unwind(|| {
        Tester::run(|tester| {
            struct Noop;
            impl Pass for Noop { fn process(&mut self, _: &mut swc_core::ecma::ast::Program) {} }
            let _ = tester.apply_transform(Noop, "out.js", syntax(ts, false), Some(true), src)?;
            if tester.handler.has_errors() { return Err(()); }
            Ok(())
        })
    });
    r.is_ok()
}

fn squash(s: &str) -> String {
    s.split_whitespace().collect::<Vec<_>>().join(" ")
}

/// the lowering of the `<Panel>` element: from its `_resolveComponent("Panel")` to the end of the statement
fn panel_part(out: &str) -> String {
    let i = out.find("_resolveComponent(\"Panel\")").expect("Panel element");
    squash(&out[i..])
}

/// C10 - the lowering of `<Panel>{node}</Panel>` on the right of `node = ...` depends on whether an
/// unrelated JSX expression with an identifier child was lowered earlier inside the same assignment
/// (`assignment_left` is `take()`n by the first such element).
#[test]
fn c10_capture_of_assigned_variable_depends_on_unrelated_jsx() {
    let mut failures = vec![];

    // (a) sibling branch of a conditional
    let (alone, e1) = run("let node = leaf;\nfunction wrap(ok) { node = ok ? null : <Panel>{node}</Panel>; }", "{}", false);
    let (with, e2) = run("let node = leaf;\nfunction wrap(ok) { node = ok ? <Box>{title}</Box> : <Panel>{node}</Panel>; }", "{}", false);
    assert!(!e1 && !e2);
    if panel_part(&alone) != panel_part(&with) {
        failures.push(format!("(a) alone:\n{}\n    beside <Box>{{title}}</Box>:\n{}", panel_part(&alone), panel_part(&with)));
    }

    // (b) a preceding statement in the same function body
    let (alone, _) = run("let render;\nrender = () => { return <Panel>{render}</Panel>; };", "{}", false);
    let (with, _) = run("let render;\nrender = () => { log(<Box>{title}</Box>); return <Panel>{render}</Panel>; };", "{}", false);
    if panel_part(&alone) != panel_part(&with) {
        failures.push(format!("(b) alone:\n{}\n    after log(<Box>{{title}}</Box>):\n{}", panel_part(&alone), panel_part(&with)));
    }

    assert!(failures.is_empty(), "lowering of <Panel> depends on unrelated JSX:\n{}", failures.join("\n"));
}

/// C06 - the captured copy `const _x = function(){ return x }()` is declared in the nearest enclosing
/// *statement list*, which can lie outside the scope of `x` (a `for (let x ...)` header, a TS namespace
/// body, a parameter list): its initialiser then reads a variable that is not in scope there.
#[test]
fn c06_captured_copy_declared_outside_the_scope_of_the_variable() {
    let mut failures = vec![];

    let (out, err) = run("for (let node = leaf; n > 0; node = <Wrap>{node}</Wrap>) n--;", "{}", false);
    assert!(!err);
    let before_loop = &out[..out.find("for(").or_else(|| out.find("for (")).unwrap()];
    if before_loop.contains("node") {
        failures.push(format!("`node` (declared by the for header) is read before/outside the loop:\n{out}"));
    }

    let (out, err) = run("namespace N { let x = 1; x = <A>{x}</A>; }", "{}", true);
    assert!(!err);
    let before_ns = &out[..out.find("namespace N").unwrap()];
    if before_ns.contains("return x") {
        failures.push(format!("`x` (local to namespace N) is read at module level:\n{out}"));
    }

    let (out, err) = run("function f(x, y = (x = <A>{x}</A>)) { return y; }", "{}", false);
    assert!(!err);
    let before_fn = &out[..out.find("function f").unwrap()];
    if before_fn.contains("return x") {
        failures.push(format!("`x` (a parameter of f) is read outside f:\n{out}"));
    }

    assert!(failures.is_empty(), "{}", failures.join("\n\n"));
}

/// C15 - a `@jsx` annotation in a comment directly before a top-level statement is ignored when that
/// statement is a decorated export (`@Component export default class ...`): the comment is attached to
/// the decorator, the statement's span starts at `export`.
#[test]
fn c15_pragma_comment_before_decorated_export_is_ignored() {
    let src = "import { h } from 'vue';\n/** @jsx h */\n@Component\nexport default class Foo extends Base { render() { return <div/>; } }\n";
    let (out, err) = run(src, "{}", true);
    assert!(!err);
    assert!(
        out.contains("h(\"div\"") && !out.contains("_createVNode"),
        "the element must be created by the annotated factory `h`:\n{out}"
    );
}

/// C06 - the runtime types derived by resolveType (`String`, `Number`, ...) are emitted as plain
/// identifiers without syntax context: a user binding of that name (here runtypes' `String`/`Number`)
/// captures them, and hygiene cannot tell them apart.
#[test]
fn c06_runtime_type_constructors_are_captured_by_user_bindings() {
    let src = "import { defineComponent } from 'vue';\nimport { String, Number } from 'runtypes';\nexport const Name = String.withConstraint((s) => s.length > 0);\nexport default defineComponent((props: { label: string; count?: number }) => () => <div>{props.label}</div>);\n";
    let (out, err) = run(src, r#"{"resolveType":true}"#, true);
    assert!(!err);
    let user_binding_kept = out.contains("import { String, Number } from 'runtypes'");
    assert!(
        !(user_binding_kept && (out.contains("type: String") || out.contains("type: Number"))),
        "`type: String` / `type: Number` now denote the runtypes imports, not the global constructors:\n{out}"
    );
}

/// C07 - `v-model={eval}` / `v-model={arguments}`: no diagnostic, and the generated listener assigns to
/// `eval` / `arguments`, which is an early error in module (strict) code: the output is not a program.
#[test]
fn c07_v_model_on_eval_or_arguments_yields_unparsable_output() {
    for src in [
        "const a = <input v-model={eval} />;",
        "function g() { return <input v-model={arguments} />; }",
    ] {
        let (out, err) = run(src, "{}", false);
        assert!(err || reparses(&out, false), "no diagnostic and the output does not re-parse:\n{out}");
    }
}

/// C07 - a JSX member tag whose object is a reserved word (`<if.X />`, legal JSX: a JSXIdentifier may
/// be any identifier name) is emitted as the member expression `if.X`.
#[test]
fn c07_reserved_word_as_member_tag_object_yields_unparsable_output() {
    let (out, err) = run("const b = <if.X />;\nconst c = <class.Y>{1}</class.Y>;", "{}", false);
    assert!(err || reparses(&out, false), "no diagnostic and the output does not re-parse:\n{out}");
}
