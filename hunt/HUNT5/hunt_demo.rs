use swc_core::{
    common::Mark,
    ecma::{
        ast::Pass,
        parser::{EsSyntax, Syntax, TsSyntax},
        transforms::{
            base::{fixer::fixer, hygiene::hygiene, resolver},
            testing::Tester,
        },
        visit::visit_mut_pass,
    },
};
use swc_vue_jsx_visitor::{Options, VueJsxTransformVisitor};

#[allow(dead_code)]
struct Out {
    /// printed right after the visitor
    raw: String,
    /// printed after hygiene + fixer (what `test_fixture` compares)
    fin: String,
    errors: bool,
    /// `fin` parses as a plain (non-JSX) module
    reparses: bool,
}

fn run(src: &str, is_ts: bool, options: Options) -> Out {
    Tester::run(|tester| {
        let syntax = if is_ts {
            Syntax::Typescript(TsSyntax {
                tsx: true,
                decorators: true,
                ..Default::default()
            })
        } else {
            Syntax::Es(EsSyntax {
                jsx: true,
                decorators: true,
                ..Default::default()
            })
        };
        let unresolved_mark = Mark::new();
        let pass = (
            resolver(unresolved_mark, Mark::new(), is_ts),
            visit_mut_pass(VueJsxTransformVisitor::new(
                options,
                unresolved_mark,
                Some(tester.comments.clone()),
            )),
        );
        let program = tester.apply_transform(pass, "input.js", syntax, Some(true), src)?;
        let comments = tester.comments.clone();
        let raw = tester.print(&program, &comments);
        let mut program = program;
        hygiene().process(&mut program);
        fixer(Some(&tester.comments)).process(&mut program);
        let fin = tester.print(&program, &comments);
        let errors = tester.handler.has_errors();
        let plain = if is_ts {
            Syntax::Typescript(TsSyntax {
                tsx: false,
                ..Default::default()
            })
        } else {
            Syntax::Es(EsSyntax {
                jsx: false,
                ..Default::default()
            })
        };
        let before = tester.handler.err_count();
        let reparsed = tester
            .with_parser("output.js", plain, &fin, |p| p.parse_module())
            .is_ok();
        let reparses = reparsed && tester.handler.err_count() == before;
        Ok(Out {
            raw,
            fin,
            errors,
            reparses,
        })
    })
}

fn show(label: &str, out: &Out) {
    println!(
        "===== {label} (errors: {}, reparses: {})\n--- raw\n{}\n--- final\n{}",
        out.errors, out.reparses, out.raw, out.fin
    );
}

/// the printed output without any whitespace
fn squeeze(text: &str) -> String {
    text.chars().filter(|c| !c.is_whitespace()).collect()
}

/// C09: a directive prologue (`"use client"`, `"use strict"`, ...) must stay a directive
/// prologue: only directives may precede it. SWC keeps directives as ordinary statements at the
/// head of the statement list (Babel has a separate `directives` list), so inserting at index 0
/// turns them into plain expression statements.
#[test]
fn c09_directive_prologues_are_kept_first() {
    let mut problems = vec![];

    // module level: the generated import is put before the prologue
    let out = run(
        "\"use client\";\nexport const a = <div>hi</div>;\n",
        false,
        Options::default(),
    );
    show("module prologue", &out);
    assert!(!out.errors);
    if !out.fin.trim_start().starts_with("\"use client\"") {
        problems.push(format!(
            "the directive is no longer the first statement of the module (an import was put \
             before it, so it is an ordinary expression statement now):\n{}",
            out.fin
        ));
    }

    // function level: `let _slot;` is put before the prologue
    let out = run(
        "export function f() {\n  \"use strict\";\n  return <A>{g()}</A>;\n}\n",
        false,
        Options::default(),
    );
    show("function prologue", &out);
    assert!(!out.errors);
    if !squeeze(&out.fin).contains("functionf(){\"usestrict\";") {
        problems.push(format!(
            "`let _slot;` was declared before the directive prologue of the function:\n{}",
            out.fin
        ));
    }

    assert!(problems.is_empty(), "{}", problems.join("\n\n"));
}

/// C04: parentheses (or a TS `as const`) around the array form do not change what it is.
#[test]
fn c04_parenthesised_array_form_directive() {
    let plain = run(
        "const a = <div v-foo={[x, 'arg', ['m']]} />;",
        false,
        Options::default(),
    );
    let expected = "[_resolveDirective(\"foo\"),x,'arg',{m:true}]";
    assert!(squeeze(&plain.fin).contains(expected), "{}", plain.fin);

    let out = run(
        "const a = <div v-foo={([x, 'arg', ['m']])} />;",
        false,
        Options::default(),
    );
    show("paren array form", &out);
    assert!(
        out.errors || squeeze(&out.fin).contains(expected),
        "value/argument/modifiers of the parenthesised array form are not taken apart: the \
         whole array became the directive value\n{}",
        out.fin
    );
}

/// C04 / C11: `v-foo=<b/>` - the value of the directive is the written element. It is dropped
/// without any diagnostic (v-html / v-text / v-model report an error for this shape).
#[test]
fn c04_element_as_directive_value() {
    let out = run(
        "const a = <div v-foo=<b>{f()}</b> />;",
        false,
        Options::default(),
    );
    show("element directive value", &out);
    let text = squeeze(&out.fin);
    assert!(
        out.errors || (text.contains("_resolveDirective(\"foo\"),_createVNode(\"b\"") && text.contains("f()")),
        "the directive value (an element, with the call f() inside) vanished silently:\n{}",
        out.fin
    );
}

/// C11 (and the reason v-slots exists): the `v-slots` expression must be evaluated exactly once
/// per evaluation of the element and its entries must reach the component. With a single
/// identifier (or call) child and enableObjectSlots it sits only in the `else` branch of the
/// generated conditional: when the child is a slot function / slots object at run time,
/// `sl()` is not evaluated at all and the v-slots entries are lost.
#[test]
fn c11_v_slots_beside_identifier_child_is_conditional() {
    for src in [
        "const a = <A v-slots={sl()}>{x}</A>;",
        "const a = <A v-slots={sl()}>{f()}</A>;",
    ] {
        let out = run(src, false, Options::default());
        show("v-slots beside identifier child", &out);
        assert!(!out.errors);
        let text = squeeze(&out.fin);
        assert_eq!(text.matches("sl()").count(), 1);
        // where the conditional starts / where its consequent ends
        let cond = text.find("_isSlot(").unwrap();
        let sl = text.find("sl()").unwrap();
        let alt = text[cond..].find(":{default:").map(|i| i + cond).unwrap();
        assert!(
            sl < cond || sl < alt,
            "`sl()` is only evaluated in the alternate branch of `_isSlot(..) ? child : {{..}}`: \
             zero evaluations (and no v-slots entries) when the child is a slot object\n{}",
            out.fin
        );
    }
}

/// C11: a `v-slots` value on an element that is no component is never evaluated when the element
/// has children.
#[test]
fn c11_v_slots_on_plain_element_never_evaluated() {
    let out = run(
        "const a = <div v-slots={f()}>x</div>;",
        false,
        Options::default(),
    );
    show("v-slots on plain element", &out);
    assert!(
        out.errors || out.fin.contains("f()"),
        "the call f() written in the JSX is evaluated zero times and nothing is reported:\n{}",
        out.fin
    );
}

/// C04: `[value, <hole>, [modifiers]]` - the modifier list of the array form is ignored when the
/// argument position is an elision (it is honoured for `undefined` / `void 0`).
#[test]
fn c04_array_form_with_elided_argument_keeps_modifiers() {
    let reference = run(
        "const a = <div v-foo={[x, undefined, ['a']]} />;",
        false,
        Options::default(),
    );
    assert!(squeeze(&reference.fin).contains("{a:true}"), "{}", reference.fin);
    let out = run(
        "const a = <div v-foo={[x, , ['a']]} />;",
        false,
        Options::default(),
    );
    show("elided argument", &out);
    assert!(
        out.errors || squeeze(&out.fin).contains("{a:true}"),
        "the modifiers of the array form are lost:\n{}",
        out.fin
    );
}
