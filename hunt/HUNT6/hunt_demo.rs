use swc_core::{
    common::Mark,
    ecma::{
        parser::{Syntax, TsSyntax},
        transforms::{
            base::{fixer::fixer, hygiene::hygiene, resolver},
            testing::Tester,
        },
        visit::visit_mut_pass,
    },
};
use swc_vue_jsx_visitor::{Options, VueJsxTransformVisitor};

/// parse -> resolver -> VueJsxTransformVisitor (-> hygiene -> fixer) -> print
fn run(src: &str, options_json: &str, with_hygiene: bool) -> String {
    let options: Options = serde_json::from_str(options_json).unwrap();
    let src = src.to_string();
    Tester::run(move |tester| {
        let unresolved_mark = Mark::new();
        let top_level_mark = Mark::new();
        let comments = tester.comments.clone();
        let syntax = Syntax::Typescript(TsSyntax {
            tsx: true,
            ..Default::default()
        });
        let visitor = visit_mut_pass(VueJsxTransformVisitor::new(
            options,
            unresolved_mark,
            Some(comments.clone()),
        ));
        let program = if with_hygiene {
            tester.apply_transform(
                (
                    resolver(unresolved_mark, top_level_mark, true),
                    visitor,
                    hygiene(),
                    fixer(Some(&comments)),
                ),
                "input.tsx",
                syntax,
                Some(true),
                &src,
            )?
        } else {
            tester.apply_transform(
                (resolver(unresolved_mark, top_level_mark, true), visitor),
                "input.tsx",
                syntax,
                Some(true),
                &src,
            )?
        };
        let printed = tester.print(&program, &comments);
        Ok(if tester.handler.has_errors() {
            format!("/*ERRORS REPORTED*/\n{printed}")
        } else {
            printed
        })
    })
}

fn squeeze(text: &str) -> String {
    text.chars().filter(|c| !c.is_whitespace()).collect()
}

/// the text of the `emits: [...]` option in the output, without white space
fn emits_of(output: &str) -> Option<String> {
    let output = squeeze(output);
    let start = output.find("emits:[")?;
    let end = output[start..].find(']')?;
    Some(output[start..start + end + 1].to_string())
}

/// C14: a custom-element pattern influences only the tags it matches, and a tag it matches is a
/// custom element. The tag of `<a:foo>` is "a:foo".
#[test]
fn c14_namespaced_tag_and_custom_element_patterns() {
    let src = "let x; const a = <a:foo>{x}</a:foo>;";
    let without = run(src, r#"{}"#, false);
    // `^foo$` does not match the tag "a:foo" (the output says `createVNode("a:foo", ...)`)
    let not_matching = run(src, r#"{"customElementPatterns":["^foo$"]}"#, false);
    // `^a:foo$` matches exactly the tag "a:foo"
    let matching = run(src, r#"{"customElementPatterns":["^a:foo$"]}"#, false);
    let mut failures = vec![];
    if without != not_matching {
        failures.push(format!(
            "a pattern that does not match the tag changed the output:\n{without}\nvs\n{not_matching}"
        ));
    }
    // a custom element gets its children as an array, not as a slots object
    if squeeze(&matching).contains("default:()=>") {
        failures.push(format!(
            "a tag matched by a pattern is still treated as a component:\n{matching}"
        ));
    }
    assert!(failures.is_empty(), "{}", failures.join("\n\n"));
}

/// C13: `KeepAlive` is a component, not an element; a dynamic `class` on it is covered only if
/// it is in the dynamic-prop list (with the props bit), or the full-props bit / no flag is used.
#[test]
fn c13_keep_alive_dynamic_class_not_in_dynamic_props() {
    let out = run(
        "import { KeepAlive } from 'vue'; import A from 'a'; let x; const a = <KeepAlive class={x}><A/></KeepAlive>;",
        r#"{"optimize":true}"#,
        false,
    );
    let squeezed = squeeze(&out);
    // the vnode call for KeepAlive ends with `], <flag>)` or `], <flag>, [<dynamic props>])`
    let listed = squeezed.contains(r#",["class"]);"#);
    let no_flag = squeezed.ends_with("]);") && !listed && {
        // `...(_createVNode(A, null, null)]);` : children array directly followed by `)`
        squeezed.contains("null)]);")
    };
    let full_props = squeezed.contains("],16");
    assert!(
        listed || no_flag || full_props,
        "KeepAlive vnode carries a patch flag that does not cover its dynamic `class`:\n{out}"
    );
}

/// C19: the property names of the object-type syntax are the event names, also a numeric one.
#[test]
fn c19_numeric_event_name_in_property_syntax_is_dropped() {
    let out = run(
        "import { defineComponent, SetupContext } from 'vue';\n\
         const C = defineComponent((props: {}, ctx: SetupContext<{ a: []; 1: [n: number] }>) => {});",
        r#"{"resolveType":true}"#,
        false,
    );
    assert!(!out.contains("ERRORS REPORTED"), "{out}");
    let emits = emits_of(&out).expect("emits option");
    assert!(
        emits.contains(r#""a""#) && emits.contains(r#""1""#),
        "declared events are `a` and `1`, got {emits}\n{out}"
    );
}

/// C19: the second parameter is annotated `SetupContext<E>`; that it also has a default value
/// does not change what E declares.
#[test]
fn c19_context_parameter_with_default_gets_no_emits() {
    let out = run(
        "import { defineComponent, SetupContext } from 'vue';\n\
         const C = defineComponent((props: {}, ctx: SetupContext<(e: 'a' | 'b') => void> = fallback) => {});",
        r#"{"resolveType":true}"#,
        false,
    );
    assert!(!out.contains("ERRORS REPORTED"), "{out}");
    let emits = emits_of(&out);
    assert_eq!(emits.as_deref(), Some(r#"emits:["a","b"]"#), "{out}");
}

/// C19: a TypeScript `this` pseudo-parameter is not a parameter: the second parameter of
/// `function (this: void, props, ctx: SetupContext<E>)` is `ctx`.
#[test]
fn c19_this_pseudo_parameter_shifts_the_parameters() {
    let out = run(
        "import { defineComponent, SetupContext } from 'vue';\n\
         const C = defineComponent(function (this: void, props: { p: string }, ctx: SetupContext<(e: 'a') => void>) {});",
        r#"{"resolveType":true}"#,
        false,
    );
    assert!(!out.contains("ERRORS REPORTED"), "{out}");
    let emits = emits_of(&out);
    assert_eq!(emits.as_deref(), Some(r#"emits:["a"]"#), "{out}");
}

/// C19: unions and aliases of literals are expanded; parentheses around a member of the union
/// do not change the union.
#[test]
fn c19_parenthesised_literal_union_is_rejected() {
    let out = run(
        "import { defineComponent, SetupContext } from 'vue';\n\
         type N = 'a' | ('b' | 'c');\n\
         const C = defineComponent((props: {}, ctx: SetupContext<(e: N) => void>) => {});",
        r#"{"resolveType":true}"#,
        false,
    );
    let emits = emits_of(&out);
    assert!(
        !out.contains("ERRORS REPORTED") && emits.as_deref() == Some(r#"emits:["a","b","c"]"#),
        "expected emits a, b, c without an error, got {emits:?}\n{out}"
    );
}

/// C14: mergeProps influences only elements with a spread or a repeated attribute. This element
/// has neither (`v-model` and `onUpdate:modelValue` are different attributes).
#[test]
fn c14_merge_props_changes_v_model_beside_its_listener() {
    let src = "import A from 'a'; let x; const a = <A v-model={x} onUpdate:modelValue={f} />;";
    let on = run(src, r#"{"mergeProps":true}"#, false);
    let off = run(src, r#"{"mergeProps":false}"#, false);
    assert_eq!(on, off);
}
