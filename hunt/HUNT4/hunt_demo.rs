//! One failing test per confirmed finding (properties C16 - C20, `resolveType: true`).
//! Every test states the semantic property it checks on the printed output.
//! `control_*` tests are not findings: they pass and show that the harness sees what it must see.

use std::rc::Rc;
use swc_core::{
    common::{comments::SingleThreadedComments, errors::HANDLER, Mark},
    ecma::{
        parser::{Syntax, TsSyntax},
        transforms::{
            base::{fixer::fixer, hygiene::hygiene, resolver},
            testing::Tester,
        },
        visit::visit_mut_pass,
    },
};
use swc_vue_jsx_visitor::{Options, VueJsxTransformVisitor};

/// parse (TSX module) -> resolver -> VueJsxTransformVisitor -> hygiene -> fixer -> print.
/// Returns (printed output with ALL whitespace removed, diagnostics emitted through HANDLER).
fn run(src: &str) -> (String, String) {
    let options = Options {
        resolve_type: true,
        optimize: true,
        ..Default::default()
    };
    let mut out = String::new();
    let res = testing::Tester::new().print_errors(|cm, handler| -> Result<(), ()> {
        HANDLER.set(&handler, || {
            let comments = Rc::new(SingleThreadedComments::default());
            let mut tester = Tester {
                cm,
                handler: &handler,
                comments: comments.clone(),
            };
            let unresolved_mark = Mark::new();
            let program = tester.apply_transform(
                (
                    resolver(unresolved_mark, Mark::new(), true),
                    visit_mut_pass(VueJsxTransformVisitor::new(
                        options.clone(),
                        unresolved_mark,
                        Some(comments.clone()),
                    )),
                ),
                "input.tsx",
                Syntax::Typescript(TsSyntax {
                    tsx: true,
                    ..Default::default()
                }),
                Some(true),
                src,
            )?;
            let program = program
                .apply(hygiene())
                .apply(fixer(Some(&*comments)));
            out = tester.print(&program, &comments);
            // always take the error path so that the buffered diagnostics are returned
            Err(())
        })
    });
    let errs = match res {
        Ok(()) => String::new(),
        Err(e) => e.to_string(),
    };
    println!("--- output\n{out}\n--- diagnostics\n{errs}");
    (out.split_whitespace().collect::<String>(), errs)
}

fn reported(errs: &str) -> bool {
    !errs.trim().is_empty()
}

// ---------------------------------------------------------------------------------------------
// controls (pass)
// ---------------------------------------------------------------------------------------------

#[test]
fn control_plain_interface_extends_and_error_capture() {
    let (out, errs) = run(
        "import { defineComponent } from 'vue'
interface Base { color?: string }
interface Props extends Base { label: string }
defineComponent((props: Props) => () => null)",
    );
    assert!(out.contains("label:{type:String,required:true}"));
    assert!(out.contains("color:{type:String,required:false}"));
    assert!(!reported(&errs));

    let (_, errs) = run(
        "import { defineComponent } from 'vue'
import { Props } from './types'
defineComponent((props: Props) => () => null)",
    );
    assert!(reported(&errs), "an imported props type is reported");
}

// ---------------------------------------------------------------------------------------------
// C16
// ---------------------------------------------------------------------------------------------

/// C16: `interface Props extends Omit<Base, 'size'>` declares `color?` (from Base) and `label`.
/// The type arguments of an `extends` clause are thrown away, `Omit` without arguments yields
/// nothing, and nothing is reported: `color` silently disappears from `props`.
#[test]
fn c16_interface_extends_utility_type_drops_inherited_props_silently() {
    let (out, errs) = run(
        "import { defineComponent } from 'vue'
interface Base { size: string; color?: string }
interface Props extends Omit<Base, 'size'> { label: string }
defineComponent((props: Props) => () => null)",
    );
    assert!(out.contains("label:{type:String,required:true}"));
    assert!(
        out.contains("color:{type:String,required:false}") || reported(&errs),
        "inherited prop `color` is neither declared nor reported as unresolvable"
    );
}

/// C16: same with `extends Partial<Base>`.
#[test]
fn c16_interface_extends_partial_drops_inherited_props_silently() {
    let (out, errs) = run(
        "import { defineComponent } from 'vue'
interface Base { size: string }
interface Props extends Partial<Base> { label: string }
defineComponent((props: Props) => () => null)",
    );
    assert!(
        out.contains("size:{type:String,required:false}") || reported(&errs),
        "inherited prop `size` is neither declared nor reported as unresolvable"
    );
}

/// C16: a parent that is not a plain identifier (`extends T.Base`, T a namespace import) cannot be
/// resolved; it must be reported, not silently dropped.
#[test]
fn c16_interface_extends_qualified_name_is_dropped_without_error() {
    let (out, errs) = run(
        "import { defineComponent } from 'vue'
import * as T from './types'
interface Props extends T.Base { label: string }
defineComponent((props: Props) => () => null)",
    );
    assert!(out.contains("label:{type:String,required:true}"));
    assert!(
        reported(&errs),
        "unresolvable parent `T.Base` was dropped silently"
    );
}

/// C16 (merged declarations x extends): only the `extends` clause of the FIRST declaration of a
/// merged interface is kept; parents named by later declarations are lost without an error.
#[test]
fn c16_merged_interface_loses_extends_of_later_declaration() {
    let (out, errs) = run(
        "import { defineComponent } from 'vue'
interface B { b: number }
interface Props { a: string }
interface Props extends B { c: boolean }
defineComponent((props: Props) => () => null)",
    );
    assert!(out.contains("a:{type:String,required:true}"));
    assert!(out.contains("c:{type:Boolean,required:true}"));
    assert!(
        out.contains("b:{type:Number,required:true}") || reported(&errs),
        "prop `b` inherited through the second declaration is missing"
    );
}

/// C16 (getters x Partial): every member of `Partial<T>` is optional, a getter too.
#[test]
fn c16_partial_leaves_getter_required() {
    let (out, _) = run(
        "import { defineComponent } from 'vue'
defineComponent((props: Partial<{ get a(): string; b: number }>) => () => null)",
    );
    assert!(out.contains("b:{type:Number,required:false}"));
    assert!(
        out.contains("a:{type:String,required:false}"),
        "`a` of Partial<...> is optional but is emitted as required"
    );
}

/// C16 (syntactic wrappers): parentheses / `as` around the setup function do not change what it
/// is (Babel has no parenthesis nodes); the annotated first parameter must still yield `props`.
#[test]
fn c16_parenthesised_setup_function_gets_no_props() {
    let (out, errs) = run(
        "import { defineComponent } from 'vue'
defineComponent(((props: { a: string }) => () => null))",
    );
    assert!(
        out.contains("props:{a:{type:String,required:true}}") || reported(&errs),
        "no props derived for a parenthesised setup function"
    );
}

/// C16 (indexed access as the props type): `Outer['inner']` where `inner` is inherited, and
/// `Outer['missing']`, resolve to an empty union: `props: {}` and no error.
#[test]
fn c16_indexed_access_through_extends_yields_empty_props_silently() {
    let (out, errs) = run(
        "import { defineComponent } from 'vue'
interface Base { inner: { a: string } }
interface Outer extends Base { own: { b: number } }
defineComponent((props: Outer['inner']) => () => null)",
    );
    assert!(
        out.contains("props:{a:{type:String,required:true}}") || reported(&errs),
        "props of Outer['inner'] silently dropped"
    );
}

/// C16: the effective type of `P` has `a` required (a derived interface may narrow an optional
/// member to a required one); the emitted option says `required: false`.
#[test]
fn c16_derived_interface_narrowing_optional_to_required() {
    let (out, _) = run(
        "import { defineComponent } from 'vue'
interface Base { a?: string }
interface P extends Base { a: string }
defineComponent((props: P) => () => null)",
    );
    assert!(
        out.contains("a:{type:String,required:true}"),
        "`a` is required in P but emitted as optional"
    );
}

/// C16/C17: quoted and unquoted spelling of one key are not recognised as the same prop; the
/// emitted object literal has the key twice and the later entry (`Number`, optional) wins at
/// runtime, so Vue rejects the strings the type allows.
#[test]
fn c16_quoted_and_unquoted_spelling_of_one_prop_emitted_twice() {
    let (out, _) = run(
        "import { defineComponent } from 'vue'
defineComponent((props: { a: string } & { 'a'?: number }) => () => null)",
    );
    let count = out.matches("a:{type:").count() + out.matches("'a':{type:").count();
    assert_eq!(count, 1, "prop `a` is declared twice in the emitted props");
}

// ---------------------------------------------------------------------------------------------
// C17
// ---------------------------------------------------------------------------------------------

/// C17 (property indexing): an indexed access the resolver cannot follow (member inherited through
/// `extends`, alias of an intersection, nested index, parenthesised object type) yields NO runtime
/// type at all and is printed as `type: []`. Vue's validateProp starts with `isValid = false` and
/// loops over the (empty) list, so EVERY value is rejected.
#[test]
fn c17_unfollowed_indexed_access_emits_empty_type_list() {
    let (out, _) = run(
        "import { defineComponent } from 'vue'
interface Base { a: string }
interface Derived extends Base { b: number }
type I = { x: string } & { y: number }
defineComponent((props: {
  p: Derived['a']
  q: I['x']
  s: { n: { m: string } }['n']['m']
  t: (Base)['a']
}) => () => null)",
    );
    assert!(
        !out.contains("type:[]"),
        "`type: []` rejects every value at runtime"
    );
    for key in ["p", "q", "s", "t"] {
        assert!(
            out.contains(&format!("{key}:{{type:String,")) || out.contains(&format!("{key}:{{type:null,")),
            "prop {key} must accept strings"
        );
    }
}

/// C17: values of a string enum are strings (numbers for numeric enums); `type: Object` makes Vue
/// reject all of them. The enum is declared in the same file, nothing is unresolvable.
#[test]
fn c17_enum_typed_prop_becomes_object() {
    let (out, _) = run(
        "import { defineComponent } from 'vue'
enum Size { S = 's', L = 'l' }
defineComponent((props: { size: Size }) => () => null)",
    );
    assert!(
        !out.contains("size:{type:Object"),
        "Size.S === 's' is rejected by `type: Object`"
    );
}

/// C17: generic components (documented by Vue: `defineComponent(<T extends string>(props: {
/// msg: T }) => ...)`): a type parameter says nothing about the constructor, yet `Object` is
/// emitted and every string is rejected. Only "no check" (`null`) is sound.
#[test]
fn c17_type_parameter_typed_prop_becomes_object() {
    let (out, _) = run(
        "import { defineComponent } from 'vue'
defineComponent(<T extends string>(props: { msg: T }) => () => null)",
    );
    assert!(
        !out.contains("msg:{type:Object"),
        "a string msg is rejected by `type: Object`"
    );
}

/// C17: a type reference / operator whose values are unknown (imported alias, `keyof`,
/// `ReturnType`, `Awaited`) is mapped to `Object` instead of "no check"; if the type is in fact a
/// string union the declared values are rejected.
#[test]
fn c17_unknown_type_reference_becomes_object() {
    let (out, _) = run(
        "import { defineComponent } from 'vue'
import type { Size } from './types'
interface Cfg { a: 1; b: 2 }
defineComponent((props: {
  size: Size
  key: keyof Cfg
  ret: ReturnType<() => string>
  aw: Awaited<Promise<string>>
}) => () => null)",
    );
    for key in ["size", "key", "ret", "aw"] {
        assert!(
            !out.contains(&format!("{key}:{{type:Object")),
            "prop {key}: strings inhabit the declared type but `type: Object` rejects them"
        );
    }
}

/// C17 (tuple indexing): `[string, ...number[]][number]` is `string | number`; the rest element is
/// mapped to Object, so numbers are rejected.
#[test]
fn c17_tuple_rest_element_indexed_by_number() {
    let (out, _) = run(
        "import { defineComponent } from 'vue'
defineComponent((props: { a: [string, ...number[]][number] }) => () => null)",
    );
    assert!(
        out.contains("a:{type:[String,Number]") || out.contains("a:{type:null"),
        "numbers inhabit the type but are not accepted"
    );
}

// ---------------------------------------------------------------------------------------------
// C18
// ---------------------------------------------------------------------------------------------

/// C18 (method default): "methods as the function itself". Vue only keeps a function-valued default
/// as is when `prop.type === Function` (or `skipFactory`); for `[String, Function]` or `null` it
/// CALLS the default as a factory. So for `h?: string | (() => void)` with default `h() {...}`
/// the resolved default is the method's return value (1), not the method.
#[test]
fn c18_method_default_of_union_typed_prop_is_called_as_factory() {
    let (out, _) = run(
        "import { defineComponent } from 'vue'
defineComponent((props: { h?: string | (() => number) } = { h() { return 1 } }) => () => null)",
    );
    assert!(out.contains("h:{type:[String,Function],required:false,default:"));
    let bare_function = out.contains("default:function(){return1;}}");
    let skip_factory = out.contains("skipFactory:true");
    assert!(
        !bare_function || skip_factory,
        "Vue will call the method as a factory: the default becomes 1 instead of the function"
    );
}

/// C18 (getter default x Function-typed prop): Vue never calls the default of a `type: Function`
/// prop, so the factory built around the getter body itself becomes the default value:
/// `props.cb` is `() => { return noop }` instead of `noop`.
#[test]
fn c18_getter_default_of_function_prop_is_left_as_factory() {
    let (out, _) = run(
        "import { defineComponent } from 'vue'
const noop = () => {}
defineComponent((props: { cb?: () => void } = { get cb() { return noop } }) => () => null)",
    );
    assert!(out.contains("cb:{type:Function,required:false,default:"));
    assert!(
        !out.contains("default:()=>{returnnoop;}"),
        "a factory is emitted as the default of a Function prop; Vue does not call it"
    );
}

/// C18: in `{ d: 1, d: 2 }` the value of `d` is 2 (last one wins); the first one is emitted.
#[test]
fn c18_duplicate_default_key_first_wins() {
    let (out, _) = run(
        "import { defineComponent } from 'vue'
defineComponent((props: { d?: number } = { d: 1, d: 2 }) => () => null)",
    );
    assert!(
        out.contains("d:{type:Number,required:false,default:2}"),
        "the written default object has d === 2"
    );
}

/// C18 (quoted / unquoted spelling of the same key): `1` and `'1'` are the same key; the default
/// is dropped.
#[test]
fn c18_numeric_key_quoted_in_defaults_is_not_matched() {
    let (out, _) = run(
        "import { defineComponent } from 'vue'
defineComponent((props: { 1?: string } = { '1': 'one' }) => () => null)",
    );
    assert!(
        out.contains("1:{type:String,required:false,default:'one'}"),
        "default of prop `1` lost"
    );
}

// ---------------------------------------------------------------------------------------------
// C20
// ---------------------------------------------------------------------------------------------

/// C20: "a spread argument list is left alone". The name option is appended behind the spread; if
/// `args` is `[setup, options]` it is a dead third argument, if `args` is `[]` it becomes the
/// component itself.
#[test]
fn c20_name_is_appended_to_a_spread_argument_list() {
    let (out, _) = run(
        "import { defineComponent } from 'vue'
const A = defineComponent(...args)",
    );
    assert!(
        out.contains("constA=defineComponent(...args);"),
        "spread argument list was modified"
    );
}

/// C20: options the user wrote always win. A key written as a computed literal (`['name']`,
/// `['props']`) is not seen; the derived option is appended AFTER it and overrides it.
#[test]
fn c20_computed_literal_option_keys_are_overridden() {
    let (out, _) = run(
        "import { defineComponent } from 'vue'
const C = defineComponent((props: { a: string }) => {}, { ['name']: 'Custom', ['props']: ['a', 'b'] })",
    );
    assert!(
        !out.contains("name:\"C\""),
        "derived name placed after the user's ['name'] overrides it"
    );
    assert!(
        !out.contains("props:{a:{type:String"),
        "derived props placed after the user's ['props'] override them"
    );
}

/// C20: same for a dynamic computed key, which may evaluate to `props` / `name`: like a spread it
/// must come after whatever is derived.
#[test]
fn c20_dynamic_computed_option_key_can_be_overridden() {
    let (out, _) = run(
        "import { defineComponent } from 'vue'
const D = defineComponent((props: { a: string }) => {}, { [k]: v })",
    );
    let computed = out.find("[k]:v").expect("user option kept");
    for derived in ["props:{a:{type:", "name:\"D\""] {
        if let Some(pos) = out.find(derived) {
            assert!(pos < computed, "`{derived}` comes after `[k]: v` and overrides it");
        }
    }
}

/// C20: "gets that variable's name only if it has no name of its own". Vue's defineComponent does
/// `extend({ name: setup.name }, extraOptions, ...)`: a named function expression IS the
/// component's own name ("Foo"), the injected `name: "B"` overrides it.
#[test]
fn c20_variable_name_overrides_name_of_named_setup_function() {
    let (out, _) = run(
        "import { defineComponent } from 'vue'
const B = defineComponent(function Foo(props: { a: string }) {})",
    );
    assert!(
        !out.contains("name:\"B\""),
        "component already named Foo is renamed to B"
    );
}

/// C20/C16 (multi-step history): imports are hoisted, so the binding is Vue's defineComponent also
/// when the import declaration is written below the call; the visitor only learns about the import
/// when it reaches it, the call above is not augmented.
#[test]
fn c20_import_written_after_the_call() {
    let (out, _) = run(
        "const A = defineComponent((props: { a: string }) => () => null)
import { defineComponent } from 'vue'",
    );
    assert!(
        out.contains("props:{a:{type:String,required:true}}"),
        "call of vue's defineComponent not augmented"
    );
}
