use swc_core::{
    common::Mark,
    ecma::{
        parser::{Syntax, TsSyntax},
        transforms::{
            base::{fixer::fixer, hygiene::hygiene, resolver},
            testing::Tester,
        },
        visit::visit_mut_pass,
    },
};
use swc_vue_jsx_visitor::{Options, VueJsxTransformVisitor};

/// parse (TSX module) -> resolver -> VueJsxTransformVisitor -> hygiene -> fixer -> print.
/// Returns the printed output; `/*HAS_ERRORS*/` is appended when the handler received an error.
fn run(src: &str, options_json: &str) -> String {
    let options: Options = serde_json::from_str(options_json).unwrap();
    Tester::run(|tester| {
        let unresolved_mark = Mark::new();
        let tr = (
            resolver(unresolved_mark, Mark::new(), true),
            visit_mut_pass(VueJsxTransformVisitor::new(
                options,
                unresolved_mark,
                Some(tester.comments.clone()),
            )),
        );
        let program = tester.apply_transform(
            tr,
            "input.tsx",
            Syntax::Typescript(TsSyntax {
                tsx: true,
                decorators: true,
                ..Default::default()
            }),
            Some(true),
            src,
        )?;
        let program = program
            .apply(hygiene())
            .apply(fixer(Some(&tester.comments)));
        let comments = tester.comments.clone();
        let mut out = tester.print(&program, &comments);
        if tester.handler.has_errors() {
            out.push_str("\n/*HAS_ERRORS*/");
        }
        Ok(out)
    })
}

fn squash(s: &str) -> String {
    s.chars().filter(|c| !c.is_whitespace()).collect()
}


const RESOLVE_TYPE: &str = r#"{"resolveType":true}"#;

/// the text of the runtime declaration `name: { ... }` of one prop inside the derived `props`
/// option (whitespace removed)
fn prop_decl(out: &str, name: &str) -> String {
    let out = squash(out);
    let props_at = out.rfind("props:{").expect("a props option is derived");
    let rest = &out[props_at + "props:{".len()..];
    let start = rest
        .find(&format!("{name}:{{"))
        .unwrap_or_else(|| panic!("prop `{name}` is declared in {rest}"));
    let rest = &rest[start..];
    let mut depth = 0usize;
    for (i, c) in rest.char_indices() {
        match c {
            '{' => depth += 1,
            '}' => {
                depth -= 1;
                if depth == 0 {
                    return rest[..=i].to_string();
                }
            }
            _ => {}
        }
    }
    unreachable!()
}

// C17: `keyof T`, `typeof x` and conditional types denote strings (or anything), yet the runtime
// type is `Object`, so Vue rejects the string values that inhabit the declared type.
#[test]
fn c17_type_operator_and_type_query_fall_back_to_object() {
    let out = run(
        r#"
import { defineComponent } from 'vue'
interface Sizes { sm: number; lg: number }
const MODE = 'a'
export default defineComponent((props: {
  k: keyof Sizes,
  t: typeof MODE,
  c: Sizes extends object ? string : number,
}) => () => null)
"#,
        RESOLVE_TYPE,
    );
    println!("{out}");
    for name in ["k", "t", "c"] {
        let decl = prop_decl(&out, name);
        // 'sm' inhabits `keyof Sizes`, 'a' inhabits `typeof MODE`, 'x' inhabits the conditional
        // type: `type: Object` makes Vue's validation reject each of them
        assert!(
            !decl.contains("type:Object"),
            "prop `{name}` only has string values but is validated as Object: {decl}"
        );
    }
}

// C17: a type written as a qualified name (`Ns.Type`, an enum member type `Mode.Dark`) is neither
// resolved nor treated as unknown: it is validated as `Object`, which rejects the strings it denotes.
#[test]
fn c17_qualified_type_name_is_validated_as_object() {
    let out = run(
        r#"
import { defineComponent } from 'vue'
import type * as Types from './types'
enum Mode { Dark = 'dark', Light = 'light' }
export default defineComponent((props: {
  mode: Mode.Dark | Mode.Light,
  name: Types.Name,
}) => () => null)
"#,
        RESOLVE_TYPE,
    );
    println!("{out}");
    for name in ["mode", "name"] {
        let decl = prop_decl(&out, name);
        assert!(
            !decl.contains("type:Object"),
            "prop `{name}` (string enum member / imported type) is validated as Object: {decl}"
        );
    }
}

// C17: an imported (type-only) type that happens to be spelled like a JavaScript built-in is
// validated against the global constructor of that name.
#[test]
fn c17_imported_type_named_like_a_builtin_is_checked_against_the_global() {
    let out = run(
        r#"
import { defineComponent } from 'vue'
import type { Map } from 'leaflet'
import type { Error } from './api'
export default defineComponent((props: { map: Map, error: Error }) => () => null)
"#,
        RESOLVE_TYPE,
    );
    println!("{out}");
    // the import is type-only (erased): `Map` / `Error` in the output are the globals, and a
    // leaflet map is not `instanceof` the global Map, a `{ code: 1 }` api error not an `Error`
    assert!(
        !prop_decl(&out, "map").contains("type:Map"),
        "leaflet's Map is validated with `instanceof` the global Map"
    );
    assert!(
        !prop_decl(&out, "error").contains("type:Error"),
        "the imported Error type is validated with `instanceof` the global Error"
    );
}

// C17: `undefined` inhabits `string | undefined`, but the runtime type `[String, null]` of the
// required prop makes Vue reject it (`null` only accepts the value null).
#[test]
fn c17_undefined_member_of_a_union_is_rejected() {
    let out = run(
        r#"
import { defineComponent } from 'vue'
export default defineComponent((props: { u: string | undefined, alone: undefined }) => () => null)
"#,
        RESOLVE_TYPE,
    );
    println!("{out}");
    // alone, `undefined` is not checked at all (`type: null`) ...
    assert!(prop_decl(&out, "alone").contains("type:null"));
    // ... but in a union it turns into the `null` *type*, which does not accept undefined
    let decl = prop_decl(&out, "u");
    assert!(
        !decl.contains("type:[String,null]"),
        "a required `string | undefined` prop rejects undefined: {decl}"
    );
}

// C17: the call signature an interface inherits through `extends` is ignored: a function-valued
// prop is validated as `Object`, which rejects functions.
#[test]
fn c17_inherited_call_signature_is_validated_as_object() {
    let out = run(
        r#"
import { defineComponent } from 'vue'
interface Handler { (event: Event): void }
interface ClickHandler extends Handler {}
interface Own { (event: Event): void }
export default defineComponent((props: { inherited: ClickHandler, own: Own }) => () => null)
"#,
        RESOLVE_TYPE,
    );
    println!("{out}");
    assert!(prop_decl(&out, "own").contains("type:Function"));
    let decl = prop_decl(&out, "inherited");
    assert!(
        decl.contains("Function") || decl.contains("type:null"),
        "every value of ClickHandler is a function, but functions are rejected: {decl}"
    );
}

// C16: a computed key that is an identifier (`[key]: T`, key a const / unique symbol) is declared
// under the *name of the identifier* instead of under its value.
#[test]
fn c16_computed_identifier_key_is_declared_under_the_identifier_name() {
    let out = run(
        r#"
import { defineComponent } from 'vue'
const key = 'label'
const Keys = { size: 'size' } as const
export default defineComponent((props: { [key]: string, [Keys.size]: number }) => () => null)
"#,
        RESOLVE_TYPE,
    );
    println!("{out}");
    let squashed = squash(&out);
    // the member-expression key stays computed
    assert!(squashed.contains("[Keys.size]:{type:Number,required:true}"));
    // the identifier key has to stay computed too: the declared prop is `label`, not `key`
    assert!(
        squashed.contains("[key]:{type:String,required:true}"),
        "the prop `label` (`[key]`) is declared as a prop literally named `key`"
    );
}

// C18: the default of a Function-typed prop must be the written function itself. A getter default
// is handed to Vue as a factory, which Vue never calls for `type: Function`.
#[test]
fn c18_getter_default_of_function_prop_is_a_factory() {
    let out = run(
        r#"
import { defineComponent } from 'vue'
export default defineComponent((props: { format?: (n: number) => string } = {
  get format() { return (n: number) => String(n) },
}) => () => null)
"#,
        RESOLVE_TYPE,
    );
    println!("{out}");
    let decl = prop_decl(&out, "format");
    assert!(decl.contains("type:Function"));
    // Vue uses `default` as the value when `type === Function`: `props.format(1)` then returns
    // the inner function instead of "1"
    assert!(
        !decl.contains("default:()=>{return(n:number)=>String(n);}"),
        "the Function prop's default is a factory around the written function: {decl}"
    );
}

// C16: the `this` pseudo-parameter is taken for the props parameter.
#[test]
fn c16_this_pseudo_parameter_is_taken_for_props() {
    let out = run(
        r#"
import { defineComponent } from 'vue'
export default defineComponent(function (this: void, props: { a: string }) { return () => null })
"#,
        RESOLVE_TYPE,
    );
    println!("{out}");
    assert!(
        !out.contains("HAS_ERRORS"),
        "a resolvable props type is reported as unresolvable"
    );
    assert!(prop_decl(&out, "a").contains("type:String"));
}

// C03: the `v-slots` entries are lost when the single identifier / call child turns out to be a
// slot function or slots object at run time (they are only merged in the "wrap" branch).
#[test]
fn c03_v_slots_dropped_when_runtime_child_is_passed_through() {
    let out = run(
        r#"
const A = {}, child = () => 'body', make = () => child;
const a = <A v-slots={{ header: () => 'h' }}>{child}</A>;
const b = <A v-slots={{ header: () => 'h' }}>{make()}</A>;
"#,
        "{}",
    );
    println!("{out}");
    let squashed = squash(&out);
    // `child` is a function: `_isSlot(child)` holds and the component receives `child` alone -
    // no `header` slot - although `<A v-slots={{header}}>{() => 'body'}</A>` keeps both
    assert!(
        !squashed.contains("_isSlot(child)?child:{"),
        "the pass-through branch hands on the child without the v-slots entries"
    );
    assert!(
        !squashed.contains("_isSlot(_slot=make())?_slot:{"),
        "the pass-through branch hands on the call result without the v-slots entries"
    );
}
