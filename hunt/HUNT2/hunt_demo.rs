//! Demonstrations of property violations found by reading the implementation.
//! Every test asserts the property-relevant semantics on the printed output and FAILS on the
//! current code.  The pipeline is the one of `tests/fixture.rs`:
//! parse -> resolver -> VueJsxTransformVisitor -> hygiene -> fixer -> print.

use swc_core::{
    common::Mark,
    ecma::{
        parser::{EsSyntax, Syntax, TsSyntax},
        transforms::{
            base::{fixer::fixer, hygiene::hygiene, resolver},
            testing::Tester,
        },
        visit::visit_mut_pass,
    },
};
use swc_vue_jsx_visitor::{Options, VueJsxTransformVisitor};

fn transform(src: &str, options: Options, is_ts: bool, is_module: bool) -> String {
    Tester::run(|tester| {
        let unresolved_mark = Mark::new();
        let pass = (
            resolver(unresolved_mark, Mark::new(), is_ts),
            visit_mut_pass(VueJsxTransformVisitor::new(
                options,
                unresolved_mark,
                Some(tester.comments.clone()),
            )),
        );
        let syntax = if is_ts {
            Syntax::Typescript(TsSyntax {
                tsx: true,
                ..Default::default()
            })
        } else {
            Syntax::Es(EsSyntax {
                jsx: true,
                ..Default::default()
            })
        };
        let program = tester.apply_transform(pass, "input.js", syntax, Some(is_module), src)?;
        let program = program
            .apply(hygiene())
            .apply(fixer(Some(&tester.comments)));
        let comments = tester.comments.clone();
        Ok(tester.print(&program, &comments))
    })
}

fn jsx(src: &str) -> String {
    transform(src, Options::default(), false, true)
}

/// removes all white space, so that assertions do not depend on the printer's layout
fn squash(code: &str) -> String {
    code.chars().filter(|c| !c.is_whitespace()).collect()
}

/// the text of the statement starting with `start` up to the end of the output
fn from<'a>(code: &'a str, start: &str) -> &'a str {
    &code[code.find(start).unwrap_or_else(|| panic!("`{start}` not in\n{code}"))..]
}

// ---------------------------------------------------------------------------------------------
// F1 (C11): the value of `v-slots` is dropped unless it is a bare identifier or an object literal
// ---------------------------------------------------------------------------------------------
#[test]
fn f1_v_slots_value_that_is_not_ident_or_object_is_dropped() {
    let out = jsx(
        "const a = <C v-slots={obj.slots} />;\n\
         const b = <C v-slots={getSlots()}>hello</C>;\n\
         const c = <C v-slots={(slots)} />;\n",
    );
    println!("{out}");
    let mut failures = vec![];
    // a directive value is evaluated exactly once per evaluation of the JSX expression:
    // it must at least occur in the output
    if !out.contains("obj.slots") {
        failures.push("`obj.slots` (member access) is never evaluated: the slots are lost");
    }
    if !out.contains("getSlots()") {
        failures.push("`getSlots()` (call) is never evaluated: the slots are lost");
    }
    if !from(&out, "const c").contains("slots") {
        failures.push("parenthesised `(slots)` is dropped although `slots` alone is kept");
    }
    assert!(failures.is_empty(), "{failures:#?}\n{out}");
}

#[test]
fn f1_ts_cast_v_slots_value_is_dropped() {
    let out = transform(
        "const c = <C v-slots={slots as any} />;\n",
        Options::default(),
        true,
        true,
    );
    println!("{out}");
    assert!(
        from(&out, "const c").contains("slots"),
        "`v-slots={{slots as any}}` disappears from the output:\n{out}"
    );
}

// ---------------------------------------------------------------------------------------------
// F2 (C06): JSX inside a dropped `v-slots` value leaves helper imports that nothing uses
// ---------------------------------------------------------------------------------------------
#[test]
fn f2_dropped_v_slots_leaves_unused_helper_imports() {
    let out = jsx("const a = <C v-slots={cond ? { a: () => <>text</> } : null} />;\n");
    println!("{out}");
    for helper in ["_Fragment", "_createTextVNode"] {
        let uses = out.matches(helper).count();
        // one occurrence is the import specifier itself
        assert!(
            uses != 1,
            "`{helper}` is imported but never used (every imported helper must be used):\n{out}"
        );
    }
}

// ---------------------------------------------------------------------------------------------
// F3 (C10): a user component called `_Fragment` is lowered differently after an unrelated `<></>`
// ---------------------------------------------------------------------------------------------
#[test]
fn f3_component_named_like_the_fragment_import_depends_on_earlier_fragment() {
    // member form: no renaming by hygiene involved, the statement text must be identical
    let stmt = "const b = <ns._Fragment>{foo}</ns._Fragment>;\n";
    let alone = jsx(stmt);
    let after_fragment = jsx(&format!("const a = <></>;\n{stmt}"));
    println!("--- alone\n{alone}\n--- after a fragment\n{after_fragment}");

    // identifier form: the user's import is a component like any other
    let stmt2 = "const b = <_Fragment>{foo}</_Fragment>;\n";
    let alone2 = jsx(&format!("import _Fragment from './frag';\n{stmt2}"));
    let after_fragment2 = jsx(&format!(
        "import _Fragment from './frag';\nconst a = <></>;\n{stmt2}"
    ));
    println!("--- alone\n{alone2}\n--- after a fragment\n{after_fragment2}");

    let mut failures = vec![];
    if squash(from(&alone, "const b")) != squash(from(&after_fragment, "const b")) {
        failures.push("<ns._Fragment>{foo}</ns._Fragment> is lowered differently after `<></>`");
    }
    if from(&alone2, "const b").contains("default:")
        != from(&after_fragment2, "const b").contains("default:")
    {
        failures.push(
            "<_Fragment>{foo}</_Fragment> gets a slots object alone but an array after `<></>`",
        );
    }
    assert!(failures.is_empty(), "{failures:#?}");
}

/// the name assigned in `_isSlot(NAME = call())` and the names returned by the default slot
fn temp_and_slot_content(stmt: &str) -> (String, String) {
    let s = squash(stmt);
    let open = s.find("_isSlot").expect("slot test");
    let open = open + s[open..].find('(').unwrap() + 1;
    let eq = open + s[open..].find('=').unwrap();
    let temp = s[open..eq].to_string();
    let dflt = s.find("default:()=>[").expect("default slot") + "default:()=>[".len();
    let close = dflt + s[dflt..].find(']').unwrap();
    (temp, s[dflt..close].to_string())
}

// ---------------------------------------------------------------------------------------------
// F4 (C06, C10): a user variable called like the slot temporary makes the slot render `undefined`
// ---------------------------------------------------------------------------------------------
#[test]
fn f4_user_variable_named_like_the_slot_temporary() {
    let out = jsx("let _slot;\n_slot = <C>{f()}</C>;\n");
    println!("{out}");
    let mut failures = vec![];
    let stmt = from(&out, "= _createVNode");
    let (temp, content) = temp_and_slot_content(stmt);
    if temp != content {
        failures.push(format!(
            "the value of `f()` is stored in `{temp}` but the default slot returns `{content}`, \
             a copy of the temporary taken at the top of the module, before `f()` ran (undefined)"
        ));
    }

    // the same through a distractor (C10): alone the statement is fine, after another JSX
    // statement that needs a temporary the generated name becomes `_slot2` and collides
    let stmt = "_slot2 = <C>{g()}</C>;\n";
    let alone = jsx(&format!("let _slot2;\n{stmt}"));
    let after = jsx(&format!("let _slot2;\nconst a = <D>{{f()}}</D>;\n{stmt}"));
    println!("--- alone\n{alone}\n--- after another statement with a temporary\n{after}");
    let (temp_alone, content_alone) = temp_and_slot_content(from(&alone, "= _createVNode"));
    let after_stmt = &after[after.rfind("= _createVNode").unwrap()..];
    let (temp_after, content_after) = temp_and_slot_content(after_stmt);
    if (temp_alone == content_alone) != (temp_after == content_after) {
        failures.push(format!(
            "`_slot2 = <C>{{g()}}</C>` alone: slot returns its temporary ({temp_alone} / \
             {content_alone}); after `const a = <D>{{f()}}</D>`: temporary `{temp_after}` but \
             slot returns `{content_after}`"
        ));
    }
    assert!(failures.is_empty(), "{failures:#?}");
}

// ---------------------------------------------------------------------------------------------
// F5 (C06): in a script (non-module) program nothing declares the helpers the output calls
// ---------------------------------------------------------------------------------------------
#[test]
fn f5_script_program_gets_no_imports_and_no_slot_helper() {
    let out = transform(
        "const a = <C>{f()}</C>;\n",
        Options::default(),
        false,
        false,
    );
    println!("{out}");
    let mut free = vec![];
    for name in ["_createVNode", "_resolveComponent", "_isSlot"] {
        let used = out.contains(&format!("{name}("));
        let declared = out.contains(&format!("as {name}"))
            || out.contains(&format!("function {name}("))
            || out.contains(&format!("{name} ="))
            || out.contains(&format!("{name} }}"));
        if used && !declared {
            free.push(name);
        }
    }
    assert!(
        free.is_empty(),
        "free variables introduced by the transform: {free:?}\n{out}"
    );
}

// ---------------------------------------------------------------------------------------------
// F6 (C11): a repeated plain attribute is dropped together with its expression (mergeProps)
// ---------------------------------------------------------------------------------------------
#[test]
fn f6_repeated_attribute_expression_is_never_evaluated() {
    let out = jsx("const v = <div id={a()} id={b()} />;\n");
    println!("{out}");
    assert!(
        out.contains("b()"),
        "`b()` is written inside the JSX expression but never evaluated:\n{out}"
    );
}

// ---------------------------------------------------------------------------------------------
// F7 (C06/C10): one temporary shared by all evaluations of a JSX expression in a loop body
// ---------------------------------------------------------------------------------------------
#[test]
fn f7_slot_temporary_is_shared_between_loop_iterations() {
    let out = jsx(
        "function list(xs) {\n  const out = [];\n  for (const x of xs) out.push(<C>{f(x)}</C>);\n  return out;\n}\n",
    );
    println!("{out}");
    let decl = out.find("let _slot").expect("temporary");
    let loop_start = out.find("for").expect("loop");
    // `default: () => [_slot]` reads the temporary when the slot is rendered, i.e. after the
    // loop has finished: every vnode then renders the value of the LAST iteration, unless each
    // iteration has a binding of its own (as in `for (..) { out.push(..) }`)
    assert!(
        decl > loop_start,
        "`let _slot` is declared once, outside the loop; the lazily invoked default slots of \
         all vnodes read the same binding:\n{out}"
    );
}

// ---------------------------------------------------------------------------------------------
// F8 (C06): runtime prop types are emitted as plain names that a user binding captures
// ---------------------------------------------------------------------------------------------
#[test]
fn f8_runtime_type_constructor_is_captured_by_user_binding() {
    let out = transform(
        "import { defineComponent } from 'vue';\n\
         import { String } from 'runtypes';\n\
         export const check = String.check;\n\
         export default defineComponent((props: { a: string }) => () => null);\n",
        Options {
            resolve_type: true,
            ..Default::default()
        },
        true,
        true,
    );
    println!("{out}");
    let s = squash(&out);
    // the generated `type: String` must denote the global constructor, not the user's import
    let user_binding_is_still_called_string =
        s.contains("import{String}from'runtypes'") || s.contains("asString}from'runtypes'");
    assert!(
        !(user_binding_is_still_called_string && s.contains("type:String")),
        "the generated `type: String` refers to the user's import from 'runtypes':\n{out}"
    );
}

// ---------------------------------------------------------------------------------------------
// F9 (C11): `v-slots` is dropped when the only child is an object literal
// ---------------------------------------------------------------------------------------------
#[test]
fn f9_v_slots_dropped_beside_object_literal_child() {
    let out = jsx("const v = <C v-slots={{ a: f() }}>{{ b: () => 1 }}</C>;\n");
    println!("{out}");
    assert!(
        out.contains("f()"),
        "the `v-slots` object and its expression `f()` are never evaluated:\n{out}"
    );
}

// ---------------------------------------------------------------------------------------------
// F10 (C06, C09): a hyphenated JSX member name is printed as a subtraction of free variables
// ---------------------------------------------------------------------------------------------
#[test]
fn f10_hyphenated_member_tag_becomes_subtraction() {
    let out = jsx("import ns from './ns';\nconst v = <ns.my-el>{y}</ns.my-el>;\n");
    println!("{out}");
    let s = squash(&out);
    // `ns.my-el` is the JavaScript expression `ns.my - el`: it reads the free variable `el`
    assert!(
        !s.contains("_createVNode(ns.my-el"),
        "the tag expression is `ns.my - el`, which introduces the free variable `el`:\n{out}"
    );
    // and the transform is not idempotent on it
    let again = jsx(&out);
    assert_eq!(squash(&again), s, "the output changes when transformed again");
}
