//! One failing test per confirmed finding. Every test transforms a small module with the
//! UNMODIFIED visitor (parse -> resolver -> VueJsxTransformVisitor -> hygiene -> fixer -> print)
//! and asserts the property-relevant semantics on the printed output.

use swc_core::{
    common::Mark,
    ecma::{
        parser::{EsSyntax, Syntax, TsSyntax},
        transforms::{
            base::{fixer::fixer, hygiene::hygiene, resolver},
            testing::Tester,
        },
        visit::visit_mut_pass,
    },
};
use swc_vue_jsx_visitor::{Options, VueJsxTransformVisitor};

fn run(src: &str, options: Options, is_ts: bool) -> String {
    Tester::run(|tester| {
        let unresolved_mark = Mark::new();
        let tr = (
            resolver(unresolved_mark, Mark::new(), is_ts),
            visit_mut_pass(VueJsxTransformVisitor::new(
                options.clone(),
                unresolved_mark,
                Some(tester.comments.clone()),
            )),
        );
        let syntax = if is_ts {
            Syntax::Typescript(TsSyntax {
                tsx: true,
                ..Default::default()
            })
        } else {
            Syntax::Es(EsSyntax {
                jsx: true,
                ..Default::default()
            })
        };
        let program = tester.apply_transform(tr, "input.js", syntax, Some(true), src)?;
        let program = program
            .apply(hygiene())
            .apply(fixer(Some(&tester.comments)));
        let comments = tester.comments.clone();
        Ok(tester.print(&program, &comments))
    })
}

fn jsx(src: &str) -> String {
    run(src, Options::default(), false)
}

fn tsx(src: &str) -> String {
    run(src, Options::default(), true)
}

/// the output without any whitespace, so that assertions do not depend on the layout
fn squash(out: &str) -> String {
    out.chars().filter(|c| !c.is_whitespace()).collect()
}

/// the text of the module after the helper imports / `_isSlot` helper
fn body_after<'a>(out: &'a str, marker: &str) -> &'a str {
    &out[out.find(marker).unwrap_or_else(|| panic!("`{marker}` not in output:\n{out}"))..]
}

// ---------------------------------------------------------------------------------------------
// F1 (C05): `v-models` must behave as the same-order sequence of the individual `v-model`
// attributes it lists. A string argument that contains `_` is re-parsed as `arg_modifier`.
// ---------------------------------------------------------------------------------------------
#[test]
fn f1_v_models_string_argument_containing_underscore() {
    let listed = jsx(r#"<A v-models={[[foo, "first_name"]]} />;"#);
    let single = jsx(r#"<A v-model={[foo, "first_name"]} />;"#);
    // sanity: the individual attribute is right
    assert!(squash(&single).contains(r#""first_name":foo"#), "{single}");
    assert!(squash(&single).contains(r#""onUpdate:first_name""#), "{single}");
    // property: same props through v-models
    assert!(
        squash(&listed).contains(r#""first_name":foo"#)
            && squash(&listed).contains(r#""onUpdate:first_name""#)
            && !squash(&listed).contains("firstModifiers"),
        "v-models entry [foo, \"first_name\"] must bind prop `first_name` and listen to \
         `onUpdate:first_name`, got:\n{listed}"
    );
    assert_eq!(squash(&listed), squash(&single));
}

// ---------------------------------------------------------------------------------------------
// F2 (C05/C04): the camel-case spelling `vModels` (every other directive accepts `vName`,
// and C04 excludes v-model(s) from the custom directives) is not recognised: it becomes the
// custom directive "models" and no model binding at all is produced.
// ---------------------------------------------------------------------------------------------
#[test]
fn f2_camel_case_v_models() {
    let camel = jsx(r#"<A vModels={[[foo, "a"]]} />;"#);
    let kebab = jsx(r#"<A v-models={[[foo, "a"]]} />;"#);
    assert!(squash(&kebab).contains(r#""onUpdate:a":($event)=>foo=$event"#), "{kebab}");
    assert!(
        !camel.contains(r#"_resolveDirective("models")"#),
        "`vModels` must not be resolved as a custom directive named `models`:\n{camel}"
    );
    assert!(
        squash(&camel).contains(r#""a":foo"#)
            && squash(&camel).contains(r#""onUpdate:a":($event)=>foo=$event"#),
        "`vModels` must produce the two-way binding:\n{camel}"
    );
}

// ---------------------------------------------------------------------------------------------
// F3 (C03): a call child is evaluated once per element evaluation and a non-slot value is
// wrapped as the lazily evaluated `default` slot of THAT vnode. In a loop whose body is a single
// statement the temporary `_slot` is declared once outside the loop, so every vnode's default
// slot lazily reads the value of the LAST iteration.
// ---------------------------------------------------------------------------------------------
#[test]
fn f3_call_child_in_loop_body_without_braces() {
    let out = jsx(
        r#"
export function build(list, out) {
  for (const i of list) out.push(<Item>{label(i)}</Item>);
  return out;
}
"#,
    );
    let body = body_after(&out, "export function build");
    let decl = body.find("let _slot").expect("temporary is declared");
    let loop_start = body.find("for (const i of list)").or_else(|| body.find("for(const i of list)")).expect("loop");
    assert!(
        decl > loop_start,
        "`_slot` is read lazily by `default: () => [_slot]`; it needs one binding per iteration, \
         but it is declared once before the loop, so all vnodes render label(<last i>):\n{out}"
    );
}

// ---------------------------------------------------------------------------------------------
// F4 (C03): same defect for a class field initialiser: the temporary is a single module-level
// binding shared by all instances, so the lazily evaluated default slot of instance #1 returns
// the call result computed for instance #2.
// ---------------------------------------------------------------------------------------------
#[test]
fn f4_call_child_in_class_field_initialiser() {
    let out = jsx(
        r#"
export class Row {
  cell = <Cell>{format(this.value)}</Cell>;
}
"#,
    );
    let body = body_after(&out, "let _slot");
    let class_start = out.find("class Row").unwrap();
    let decl = out.len() - body.len();
    assert!(
        decl > class_start,
        "`_slot` (read lazily by the default slot) is a module-level binding shared by every \
         `new Row()`:\n{out}"
    );
}

// ---------------------------------------------------------------------------------------------
// F5 (C03): `node = <A>{node}</A>` wraps the CURRENT value of `node` (a vnode => default slot).
// The captured copy is evaluated at the top of the enclosing statement list, i.e. before the
// statements that precede the assignment ran: here it holds the un-normalised argument instead
// of `normalize(node)`. (Not the TDZ problem of the known issue: `node` is a parameter, nothing
// throws, the wrong value is rendered.)
// ---------------------------------------------------------------------------------------------
#[test]
fn f5_captured_copy_is_stale_after_earlier_reassignment() {
    let out = jsx(
        r#"
export function wrap(node) {
  node = normalize(node);
  node = <A>{node}</A>;
  return node;
}
"#,
    );
    let squashed = squash(body_after(&out, "export function wrap"));
    let earlier_statement = squashed.find("node=normalize(node);").expect("statement");
    let capture = squashed
        .find("function(){returnnode;}()")
        .expect("captured copy");
    assert!(
        capture > earlier_statement,
        "the copy rendered by <A>'s default slot must be the value `node` has when the element \
         is evaluated (normalize(node)); it is taken before `node = normalize(node)` ran:\n{out}"
    );
}

#[test]
fn f5b_second_wrapper_loses_the_first() {
    let out = jsx(
        r#"
export function wrap(node) {
  node = <A>{node}</A>;
  node = <B>{node}</B>;
  return node;
}
"#,
    );
    let squashed = squash(body_after(&out, "export function wrap"));
    let first_assignment = squashed.find("node=_createVNode(").expect("assignment");
    let captures_before_first_assignment =
        squashed[..first_assignment].matches("returnnode;").count();
    assert!(
        captures_before_first_assignment <= 1,
        "the copy used by `<B>{{node}}</B>` must be taken after `node = <A>...`, but both copies \
         are taken before the first assignment, so <B>'s default slot yields the original node \
         and the <A> wrapper is lost:\n{out}"
    );
}

// ---------------------------------------------------------------------------------------------
// F6 (C03): `x = <C>text {x}</C>`: mixed children are wrapped in a lazy default slot without the
// captured copy the single-identifier form gets, so the slot returns the NEW value of `x` - the
// vnode itself - and rendering recurses for ever.
// ---------------------------------------------------------------------------------------------
#[test]
fn f6_mixed_children_referencing_assignment_target_are_not_captured() {
    let out = jsx(
        r#"
export function wrap(node) {
  node = <Labelled>label: {node}</Labelled>;
  return node;
}
"#,
    );
    let squashed = squash(&out);
    assert!(
        !squashed.contains(r#"default:()=>[_createTextVNode("label:"),node]"#),
        "the lazily evaluated default slot reads `node` after the assignment, i.e. returns the \
         <Labelled> vnode itself as its own child (infinite recursion):\n{out}"
    );
}

// ---------------------------------------------------------------------------------------------
// F7 (C03): TypeScript wrappers (`as`, `!`, `satisfies`) do not change what the single child is.
// ---------------------------------------------------------------------------------------------
#[test]
fn f7_ts_wrapped_single_child() {
    // identifier: decided at runtime
    let ident = tsx(r#"const a = <A>{slots as any}</A>;"#);
    assert!(
        ident.contains("_isSlot("),
        "`slots as any` is a single identifier child: a slots object must be passed through at \
         runtime, but it is always wrapped as the default slot content:\n{ident}"
    );
}

#[test]
fn f7b_ts_wrapped_object_literal_child() {
    // object literal: it is the slots object
    let object = tsx(r#"const b = <A>{{ default: () => 1, foo: () => 2 } satisfies Slots}</A>;"#);
    assert!(
        !squash(&object).contains("default:()=>[{"),
        "an object-literal child is the slots object; here it is rendered as the *content* of a \
         generated default slot:\n{object}"
    );
}

#[test]
fn f7c_ts_wrapped_function_child() {
    let function = tsx(r#"const c = <A>{((item) => item.name) as Slot}</A>;"#);
    assert!(
        !squash(&function).contains("default:()=>["),
        "a function child is the default slot itself; here the function is returned as the \
         content of a generated default slot:\n{function}"
    );
}

// ---------------------------------------------------------------------------------------------
// F8 (C03): `v-slots` entries must be merged beside `default`. Any value that is not a bare
// identifier or an object literal (member expression, call, conditional, `x as T`, `(x)`) is
// silently dropped - no diagnostic, no slots.
// ---------------------------------------------------------------------------------------------
#[test]
fn f8_v_slots_member_expression_is_dropped() {
    let out = jsx(r#"const a = <A v-slots={props.slots}>hi</A>;"#);
    assert!(
        out.contains("props.slots"),
        "the slots given through v-slots never reach the component:\n{out}"
    );
}

#[test]
fn f8b_v_slots_ts_as_is_dropped() {
    let out = tsx(r#"const a = <A v-slots={slots as any}>hi</A>;"#);
    assert!(
        squash(&out).contains("...slots"),
        "the slots given through v-slots never reach the component:\n{out}"
    );
}

// ---------------------------------------------------------------------------------------------
// F9 (C05): `<input {...attrs} v-model={x}>`: the type of the input is not statically known
// (it may come from the spread), yet the text-input directive is attached. With
// attrs = { type: "checkbox" } the binding does not work; Vue's own compiler uses vModelDynamic
// whenever the type can be dynamic.
// ---------------------------------------------------------------------------------------------
#[test]
fn f9_v_model_on_input_whose_type_may_come_from_a_spread() {
    let out = jsx(r#"const a = <input {...attrs} v-model={checked} />;"#);
    assert!(
        out.contains("_vModelDynamic") && !out.contains("_vModelText"),
        "the model directive must match the host; the host's type is dynamic here:\n{out}"
    );
}

// ---------------------------------------------------------------------------------------------
// F10 (C01): a bound identifier used as a tag denotes that value. A bound identifier that
// starts with a lower-case letter is resolved at runtime by name instead (the binding is
// ignored).
// ---------------------------------------------------------------------------------------------
#[test]
fn f10_lower_case_bound_identifier_as_tag() {
    let out = jsx(
        r#"
import icon from "./icon.vue";
export const a = <icon name="x" />;
"#,
    );
    assert!(
        !out.contains(r#"_resolveComponent("icon")"#) && squash(&out).contains("_createVNode(icon,"),
        "`icon` is bound in this module and must be used as the vnode type:\n{out}"
    );
}

// ---------------------------------------------------------------------------------------------
// F11 (C02/C01): `<Vue.Fragment>` (namespace import, like the supported `<Vue.KeepAlive>`) gets
// its children as a slots object; Vue's Fragment needs the children array.
// ---------------------------------------------------------------------------------------------
#[test]
fn f11_namespace_fragment_children() {
    let out = jsx(
        r#"
import * as Vue from "vue";
export const a = <Vue.Fragment>a<b/></Vue.Fragment>;
"#,
    );
    assert!(
        squash(&out).contains("_createVNode(Vue.Fragment,null,["),
        "a Fragment receives exactly its written children (an array), not a slots object:\n{out}"
    );
}

// ---------------------------------------------------------------------------------------------
// F12 (C03/C02): history dependence. The very same element `<_Fragment>hello</_Fragment>` is a
// component host (children => slots) when it comes first in the module, but is handed a plain
// children array once any `<>...</>` was transformed before it (the alias of the generated
// import is compared by name with the user's tag).
// ---------------------------------------------------------------------------------------------
#[test]
fn f12_children_of_an_element_depend_on_earlier_fragments() {
    let alone = jsx(
        r#"
import _Fragment from "./my-fragment";
export const y = <_Fragment>hello</_Fragment>;
"#,
    );
    let after_fragment = jsx(
        r#"
import _Fragment from "./my-fragment";
export const z = <></>;
export const y = <_Fragment>hello</_Fragment>;
"#,
    );
    let slots_alone = squash(&alone).contains("default:()=>[");
    let slots_after = squash(&after_fragment).contains("default:()=>[");
    assert_eq!(
        slots_alone, slots_after,
        "same element, same binding, different children protocol.\n--- alone:\n{alone}\n--- after \
         a fragment:\n{after_fragment}"
    );
}

// ---------------------------------------------------------------------------------------------
// F13 (C02): an element / Fragment receives exactly its written children. A single function
// (or object-literal) child of a NON-component host is turned into a slots object.
// ---------------------------------------------------------------------------------------------
#[test]
fn f13_function_child_of_a_fragment_becomes_a_slots_object() {
    let out = jsx(r#"export const a = <>{() => 1}</>;"#);
    assert!(
        !squash(&out).contains("{default:()=>1}"),
        "Vue's Fragment needs a children array; it gets `{{ default: () => 1 }}`:\n{out}"
    );
}

// ---------------------------------------------------------------------------------------------
// F14 (C03): `v-slots` entries are dropped when the single child is an object literal.
// ---------------------------------------------------------------------------------------------
#[test]
fn f14_v_slots_dropped_beside_object_literal_child() {
    let out = jsx(r#"export const a = <A v-slots={extra}>{{ header: () => 1 }}</A>;"#);
    assert!(
        squash(&out).contains("...extra"),
        "the v-slots entries must be merged with the written slots object:\n{out}"
    );
}
