// Mock `vue` runtime: the functions the transformed code is allowed to call, written from
// Vue 3's documented behaviour (DESIGN appendix G).  spec/Values.tla holds the same rules in
// TLA+ and is the oracle; this file is only the environment the real output runs in.  A
// self-test (./check selftest) has TLC compare the two on generated values.

export const isArray = Array.isArray
export const isString = (v) => typeof v === 'string'
export const isFunction = (v) => typeof v === 'function'
export const isObject = (v) => v !== null && typeof v === 'object'
export const isOn = (key) => /^on[^a-z]/.test(key)
export const isModelListener = (key) => key.startsWith('onUpdate')

export function normalizeClass(value) {
  let res = ''
  if (isString(value)) {
    res = value
  } else if (isArray(value)) {
    for (let i = 0; i < value.length; i++) {
      const normalized = normalizeClass(value[i])
      if (normalized) res += normalized + ' '
    }
  } else if (isObject(value)) {
    for (const name in value) {
      if (value[name]) res += name + ' '
    }
  }
  return res.trim()
}

const listDelimiterRE = /;(?![^(]*\))/g
const propertyDelimiterRE = /:([^]+)/
const styleCommentRE = /\/\*[^]*?\*\//g
export function parseStringStyle(cssText) {
  const ret = {}
  cssText.replace(styleCommentRE, '').split(listDelimiterRE).forEach((item) => {
    if (item) {
      const tmp = item.split(propertyDelimiterRE)
      tmp.length > 1 && (ret[tmp[0].trim()] = tmp[1].trim())
    }
  })
  return ret
}

export function normalizeStyle(value) {
  if (isArray(value)) {
    const res = {}
    for (let i = 0; i < value.length; i++) {
      const item = value[i]
      const normalized = isString(item) ? parseStringStyle(item) : normalizeStyle(item)
      if (normalized) for (const key in normalized) res[key] = normalized[key]
    }
    return res
  } else if (isString(value) || isObject(value)) {
    return value
  }
}

export function mergeProps(...args) {
  const ret = {}
  for (let i = 0; i < args.length; i++) {
    const toMerge = args[i]
    for (const key in toMerge) {
      if (key === 'class') {
        if (ret.class !== toMerge.class) ret.class = normalizeClass([ret.class, toMerge.class])
      } else if (key === 'style') {
        ret.style = normalizeStyle([ret.style, toMerge.style])
      } else if (isOn(key)) {
        const existing = ret[key]
        const incoming = toMerge[key]
        if (incoming && existing !== incoming && !(isArray(existing) && existing.includes(incoming))) {
          ret[key] = existing ? [].concat(existing, incoming) : incoming
        }
      } else if (key !== '') {
        ret[key] = toMerge[key]
      }
    }
  }
  return ret
}

export function transformOn(obj) {
  const result = {}
  Object.keys(obj).forEach((evt) => {
    result[`on${evt[0].toUpperCase()}${evt.slice(1)}`] = obj[evt]
  })
  return result
}

export function mergeDefaults(raw, defaults) {
  const props = isArray(raw) ? raw.reduce((n, p) => ((n[p] = null), n), {}) : raw
  for (const key in defaults) {
    if (key.startsWith('__skip')) continue
    let opt = props[key]
    if (opt) {
      if (isArray(opt) || isFunction(opt)) opt = props[key] = { type: opt, default: defaults[key] }
      else opt.default = defaults[key]
    } else if (opt === null) {
      opt = props[key] = { default: defaults[key] }
    }
    if (opt && defaults[`__skip_${key}`]) opt.skipFactory = true
  }
  return props
}

// Vue's resolvePropValue default rule
export function resolvePropDefault(opt, rawProps) {
  if (opt != null && Object.prototype.hasOwnProperty.call(opt, 'default')) {
    const d = opt.default
    if (opt.type !== Function && !opt.skipFactory && isFunction(d)) return { has: true, value: d(rawProps), called: true }
    return { has: true, value: d, called: false }
  }
  return { has: false }
}

// Vue's assertType / validateProp acceptance
function getType(ctor) {
  if (ctor === null) return 'null'
  if (typeof ctor === 'function') return ctor.name || ''
  return ''
}
export function assertType(value, type) {
  const expectedType = getType(type)
  if (expectedType === 'null') return value === null
  if (/^(String|Number|Boolean|Function|Symbol|BigInt)$/.test(expectedType)) {
    const t = typeof value
    let valid = t === expectedType.toLowerCase()
    if (!valid && t === 'object') valid = value instanceof type
    return valid
  } else if (expectedType === 'Object') return isObject(value)
  else if (expectedType === 'Array') return isArray(value)
  return value instanceof type
}
export function validateProp(value, opt) {
  const { type, required } = opt
  if (value == null && !required) return true
  if (type == null || type === true) return true
  const types = isArray(type) ? type : [type]
  return types.some((t) => assertType(value, t))
}
