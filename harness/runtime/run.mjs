// Runtime observer: evaluates each transformed module in a fresh vm context against the mock
// `vue`, records the runtime event trace and the canonical value of every export.  Decides
// nothing; the TLA+ judges do.
//
// stdin ndjson : {case, code, env, vals, exports:[{name,kind}], pragmas:[names], targets:bool}
// stdout ndjson: {case, events:[...], exports:[[name, canon]...], errors:[...]}

import vm from 'node:vm'
import readline from 'node:readline'
import * as V from './mockvue.mjs'

const cps = (s) => Array.from(s).map((c) => c.codePointAt(0))
const S = (s) => ({ t: 'str', cp: cps(s) })
const STALE = Object.freeze({ __opq: '$stale-value-of-a-later-evaluation' })

function makeWorld(spec) {
  const events = []
  const log = (e) => events.push(e)
  const opqCache = new Map()
  let sentCounter = 0
  let vnodeCounter = 0
  const Fragment = Symbol.for('v-fgt')
  const Text = Symbol.for('v-txt')
  const KeepAlive = { __isKeepAlive: true, name: 'KeepAlive' }
  const dirMarker = (name) => ({ __vdir: name })
  const builtinDirs = {}
  for (const n of ['vShow', 'vModelText', 'vModelCheckbox', 'vModelRadio', 'vModelSelect', 'vModelDynamic'])
    builtinDirs[n] = dirMarker(n)

  // ---- abstract value -> JS value
  function mk(v) {
    switch (v.t) {
      case 'str': return String.fromCodePoint(...v.cp)
      case 'num': return v.n
      case 'bool': return v.b
      case 'null': return null
      case 'undef': return undefined
      case 'opq': {
        if (!opqCache.has(v.id)) opqCache.set(v.id, Object.freeze({ __opq: v.id }))
        return opqCache.get(v.id)
      }
      case 'pvnode': {
        const k = 'pvnode:' + v.id
        if (!opqCache.has(k)) opqCache.set(k, Object.freeze({ __v_isVNode: true, __pvnode: v.id }))
        return opqCache.get(k)
      }
      case 'fn': {
        const k = 'fn:' + v.id
        if (!opqCache.has(k)) {
          const f = function (...args) {
            log({ ev: 'call', id: v.id })
            return v.ret ? mk(v.ret) : undefined
          }
          f.__fn = v.id
          opqCache.set(k, f)
        }
        return opqCache.get(k)
      }
      case 'arr': return v.xs.map(mk)
      case 'obj': {
        const o = {}
        for (const [k, x] of v.es) o[k] = mk(x)
        return o
      }
      default: throw new Error('mk: unknown value tag ' + JSON.stringify(v))
    }
  }

  // ---- mock vue
  function makeFactory(name) {
    return function createVNode(type, props, children, patchFlag, dynamicProps) {
      if (props) {
        // Vue clones reactive/proxy props; class & style are normalised
        let { class: klass, style } = props
        if (klass && !V.isString(klass)) props = { ...props, class: V.normalizeClass(klass) }
        if (V.isObject(style)) props = { ...props, style: V.normalizeStyle(style) }
      }
      const n = ++vnodeCounter
      const vnode = {
        __v_isVNode: true, n, factory: name, type, props: props === undefined ? null : props,
        children, patchFlag, dynamicProps, dirs: null, nargs: arguments.length,
      }
      log({ ev: 'vnode', n, factory: name, tag: typeof type === 'string' ? type : !type ? '?' : type.__resolved ? String(type.name) : type.__opq ? String(type.__opq) : '?' })
      return vnode
    }
  }
  const createVNode = makeFactory('createVNode')
  const vue = {
    createVNode,
    createTextVNode: (text = ' ', flag = 0) => {
      log({ ev: 'text', cp: cps(String(text)) })
      return { __v_isVNode: true, n: ++vnodeCounter, factory: 'createTextVNode', type: Text, props: null, children: text, dirs: null }
    },
    Fragment, Text, KeepAlive,
    isVNode: (v) => (v ? v.__v_isVNode === true : false),
    mergeProps: (...a) => { log({ ev: 'mergeProps', n: a.length }); return V.mergeProps(...a) },
    resolveComponent: (name) => { log({ ev: 'resolveComponent', name }); return { __resolved: 'component', name } },
    resolveDirective: (name) => { log({ ev: 'resolveDirective', name }); return { __resolved: 'directive', name } },
    withDirectives: (vnode, dirs) => {
      log({ ev: 'withDirectives', n: vnode && vnode.n, count: dirs.length })
      if (vnode && vnode.__v_isVNode) vnode.dirs = (vnode.dirs || []).concat(dirs)
      return vnode
    },
    mergeDefaults: (raw, defaults) => { log({ ev: 'mergeDefaults' }); return V.mergeDefaults(raw, defaults) },
    defineComponent: (options, extra) => {
      const eff = typeof options === 'function' ? { name: options.name, ...extra, setup: options } : options
      const c = { __component: true, fnfirst: typeof options === 'function', nargs: extra === undefined ? 1 : 2, eff }
      log({ ev: 'defineComponent' })
      return c
    },
    ...builtinDirs,
    // a few other named exports user code in generated modules may import
    h: makeFactory('h'), ref: (v) => ({ value: v }), reactive: (v) => v, computed: (f) => ({ get value() { return f() } }),
  }

  // ---- canonicalisation
  const pending = []
  let readTargets = null
  function isPlainObject(v) { return Object.prototype.toString.call(v) === '[object Object]' }
  function ctorName(v) {
    return typeof v === 'function' && !v.__fn &&
      /^(String|Number|Boolean|Object|Array|Function|Symbol|BigInt|Date|Map|Set|WeakMap|WeakSet|Promise|Error|RegExp)$/.test(v.name) &&
      /\[native code\]/.test(Function.prototype.toString.call(v)) ? v.name : null
  }
  let budget = 20000 // canonical nodes per case: self-containing values (a slot returning its own vnode) are cut off
  function canon(v, d = 0) {
    if (d > 14 || --budget < 0) return { t: 'deep' }
    if (v === undefined) return { t: 'undef' }
    if (v === null) return { t: 'null' }
    switch (typeof v) {
      case 'string': return S(v)
      case 'number': return Number.isInteger(v) && Math.abs(v) < 2 ** 31 ? { t: 'num', n: v } : { t: 'numx', s: String(v) }
      case 'boolean': return { t: 'bool', b: v }
      case 'bigint': return { t: 'numx', s: String(v) + 'n' }
      case 'symbol':
        if (v === Fragment) return { t: 'fragment' }
        if (v === Text) return { t: 'textsym' }
        return { t: 'symbol', s: String(v.description) }
      case 'function': {
        if (v.__fn) return { t: 'fn', id: v.__fn }
        const c = ctorName(v)
        if (c) return { t: 'ctor', name: c }
        return { t: 'fn', id: 'anon' }
      }
    }
    if (v.__opq) return { t: 'opq', id: v.__opq }
    if (v.__pvnode) return { t: 'pvnode', id: v.__pvnode }
    if (v.__vdir) return { t: 'vdir', name: v.__vdir }
    if (v.__isKeepAlive) return { t: 'keepalive' }
    if (v.__resolved) return { t: 'resolved', kind: v.__resolved, name: v.name }
    if (v.__component) return canonComponent(v, d)
    if (v.__v_isVNode) return canonVNode(v, d)
    if (Array.isArray(v)) {
      const xs = []
      for (let i = 0; i < v.length; i++) xs.push(i in v ? canon(v[i], d + 1) : { t: 'hole' })
      return { t: 'arr', xs }
    }
    if (isPlainObject(v)) return { t: 'obj', es: Object.keys(v).map((k) => [k, canon(v[k], d + 1)]) }
    return { t: 'other', s: Object.prototype.toString.call(v) }
  }
  function isComponentType(type) {
    if (typeof type === 'string') return false
    if (type === Fragment || type === Text) return false
    if (type && type.__isKeepAlive) return false
    return true
  }
  function canonProps(props, d) {
    if (props === null || props === undefined) return { t: 'null' }
    if (!isPlainObject(props)) return canon(props, d + 1)
    const es = []
    for (const k of Object.keys(props)) {
      const v = props[k]
      if (V.isModelListener(k) && typeof v === 'function' && !v.__fn) {
        const rec = { t: 'upd' }
        pending.push({ rec, fn: v })
        es.push([k, rec])
      } else if (V.isModelListener(k) && Array.isArray(v) && v.some((f) => typeof f === 'function' && !f.__fn)) {
        const xs = v.map((f) => {
          if (!(typeof f === 'function' && !f.__fn)) return canon(f, d + 1)
          const rec = { t: 'upd' }; pending.push({ rec, fn: f }); return rec
        })
        es.push([k, { t: 'arr', xs }])
      } else es.push([k, canon(v, d + 1)])
    }
    return { t: 'obj', es }
  }
  function canonSlotFn(owner, name, fn, d) {
    const calls = []
    for (let k = 1; k <= 2; k++) {
      log({ ev: 'slot_begin', n: owner, name, k })
      try {
        calls.push(canon(fn(), d + 1))
      } catch (e) {
        calls.push({ t: 'throw', name: String(e && e.name), msg: String(e && e.message) })
        log({ ev: 'throw', name: String(e && e.name), msg: String(e && e.message), during: 'slot' })
      }
      log({ ev: 'slot_end', n: owner, name, k })
    }
    return { t: 'thunk', id: fn.__fn || 'anon', calls }
  }
  function canonSlots(owner, obj, d) {
    const es = []
    let flag = { t: 'none' }
    for (const k of Object.keys(obj)) {
      const v = obj[k]
      if (k === '_') { flag = canon(v, d + 1); continue }
      if (typeof v === 'function') es.push([k, canonSlotFn(owner, k, v, d)])
      else es.push([k, canon(v, d + 1)])
    }
    return { t: 'slots', es, flag }
  }
  function canonChildren(vnode, d) {
    const ch = vnode.children
    if (ch === null || ch === undefined) return { t: 'null' }
    if (isComponentType(vnode.type)) {
      if (typeof ch === 'function') return canonSlots(vnode.n, { default: ch }, d)
      if (Array.isArray(ch)) return canon(ch, d + 1)
      if (typeof ch === 'object' && !ch.__v_isVNode && isPlainObject(ch)) return canonSlots(vnode.n, ch, d)
      return canon(ch, d + 1)
    }
    return canon(ch, d + 1)
  }
  function canonVNode(v, d) {
    if (v.type === Text) return { t: 'text', cp: cps(String(v.children)) }
    const num = (x) => (x === undefined ? { t: 'none' } : canon(x, d + 1))
    return {
      t: 'vnode', factory: v.factory, type: canon(v.type, d + 1), props: canonProps(v.props, d),
      children: canonChildren(v, d), flag: num(v.patchFlag), dyn: num(v.dynamicProps),
      dirs: (v.dirs || []).map((b) => Array.isArray(b)
        ? { dir: canon(b[0], d + 1), value: b.length > 1 ? canon(b[1], d + 1) : { t: 'absent' },
            arg: b.length > 2 ? canon(b[2], d + 1) : { t: 'absent' }, mods: b.length > 3 ? canon(b[3], d + 1) : { t: 'absent' }, len: b.length }
        : { dir: canon(b, d + 1), value: { t: 'absent' }, arg: { t: 'absent' }, mods: { t: 'absent' }, len: -1 }),
    }
  }
  function canonPropOption(opt, d) {
    if (opt === null) return { t: 'null' }
    if (!isPlainObject(opt)) return { t: 'raw', v: canon(opt, d + 1) }
    const r = V.resolvePropDefault({ ...opt, type: ctorName(opt.type) === 'Function' ? Function : opt.type }, {})
    const es = []
    for (const k of Object.keys(opt)) if (k !== 'default') es.push([k, canon(opt[k], d + 1)])
    let dflt = { t: 'none' }
    if (r.has) {
      let val
      try { val = canon(r.value, d + 1) } catch (e) { val = { t: 'throw' } }
      dflt = { t: 'some', value: val, called: r.called, raw: canon(opt.default, d + 1) }
      if (ctorName(opt.type) === 'Function' && typeof r.value === 'function') {
        // a Function-typed prop receives the default itself: observe what calling it yields
        try { dflt.ret = canon(r.value(), d + 1) } catch (e) { dflt.ret = { t: 'throw' } }
      }
    }
    return { t: 'propopt', es, dflt }
  }
  function canonComponent(c, d) {
    const eff = c.eff
    if (!isPlainObject(eff)) return { t: 'component', fnfirst: c.fnfirst, nargs: c.nargs, eff: canon(eff, d + 1) }
    const es = []
    for (const k of Object.keys(eff)) {
      if (k === 'props' && isPlainObject(eff.props)) {
        let props
        try { props = { t: 'propsopt', es: Object.keys(eff.props).map((p) => [p, canonPropOption(eff.props[p], d + 1)]) } }
        catch (e) { props = { t: 'throw', name: String(e && e.name), msg: String(e && e.message) } }
        es.push([k, props])
      } else es.push([k, canon(eff[k], d + 1)])
    }
    return { t: 'component', fnfirst: c.fnfirst, nargs: c.nargs, eff: { t: 'obj', es } }
  }
  function firePending() {
    while (pending.length) {
      const { rec, fn } = pending.shift()
      const id = '$sent' + ++sentCounter
      rec.sent = id
      log({ ev: 'fire', sent: id })
      try {
        fn(mk({ t: 'opq', id }))
        rec.err = { t: 'none' }
      } catch (e) {
        rec.err = { t: 'some', name: String(e && e.name), msg: String(e && e.message) }
      }
      try {
        log({ ev: 'targets_begin' })
        rec.after = readTargets ? readTargets().map(([n, v]) => [n, canon(v, 1)]) : []
        log({ ev: 'targets_end' })
      } catch (e) {
        rec.after = []
        rec.readerr = String(e && e.message)
      }
    }
  }

  // ---- globals of the case
  const sandbox = {}
  const stores = {}
  for (const [name, e] of Object.entries(spec.env || {})) {
    switch (e.k) {
      case 'getter':
        stores[name] = mk(e.rv)
        Object.defineProperty(sandbox, name, {
          get() { log({ ev: 'read', id: name }); return stores[name] },
          set(v) { log({ ev: 'write', id: name }); stores[name] = v },
          enumerable: true, configurable: true,
        })
        break
      case 'fn': {
        // repeated-evaluation contexts set $iter.v = 1 while a *later* evaluation of the same site runs: what a call
        // returns then must never show up in the vnode of the first evaluation
        const f = function (...args) { log({ ev: 'call', id: name }); return sandbox.$iter.v ? STALE : mk(e.rv) }
        f.__fn = name
        sandbox[name] = f
        break
      }
      case 'obj': {
        const o = {}
        const st = {}
        for (const [p, pv] of Object.entries(e.props)) {
          st[p] = mk(pv)
          Object.defineProperty(o, p, {
            get() { log({ ev: 'read', id: name + '.' + p }); return st[p] },
            set(v) { log({ ev: 'write', id: name + '.' + p }); st[p] = v },
            enumerable: true, configurable: true,
          })
        }
        sandbox[name] = o
        break
      }
      case 'value': sandbox[name] = mk(e.rv); break
      default: throw new Error('env kind ' + e.k)
    }
  }
  sandbox.$iter = { v: 0 }
  sandbox.$v = (id) => mk(spec.vals[id])
  sandbox.$dc = vue.defineComponent
  sandbox.$mark = (id) => log({ ev: 'mark', id })
  // factory names may be dotted (`@jsx a.b.c`): the longest names first, so that `a.b` becomes a function carrying `c`
  for (const p of [...(spec.pragmas || [])].sort((x, y) => x.split('.').length - y.split('.').length)) {
    const parts = p.split('.')
    if (parts.length === 1) { if (!(p in sandbox)) sandbox[p] = makeFactory(p); continue }
    let o = sandbox[parts[0]]
    if (o === undefined) o = sandbox[parts[0]] = {}
    for (let i = 1; i < parts.length - 1; i++) { if (o[parts[i]] === undefined) o[parts[i]] = {}; o = o[parts[i]] }
    if (o[parts[parts.length - 1]] === undefined) o[parts[parts.length - 1]] = makeFactory(p)
  }
  sandbox.console = { log() {}, warn() {}, error() {} }
  return { events, log, vue, sandbox, canon, firePending, setReader: (f) => { readTargets = f } }
}

async function runCase(spec) {
  const W = makeWorld(spec)
  const errors = []
  const exportsOut = []
  const context = vm.createContext(W.sandbox)
  const synth = (obj) => {
    const m = new vm.SyntheticModule(Object.keys(obj), function () {
      for (const k of Object.keys(obj)) this.setExport(k, obj[k])
    }, { context })
    return m
  }
  let mod
  try {
    mod = new vm.SourceTextModule(spec.code, { context, identifier: 'case:' + spec.case })
    await mod.link(async (specifier) => {
      let m
      if (specifier === 'vue') m = synth(W.vue)
      else if (specifier === '@vue/babel-helper-vue-transform-on') m = synth({ default: (o) => { W.log({ ev: 'transformOn' }); return V.transformOn(o) } })
      else m = synth(new Proxy({}, {}))
      if (specifier !== 'vue' && specifier !== '@vue/babel-helper-vue-transform-on') {
        // other modules: every imported name is an opaque probe value
        const names = spec.other_imports && spec.other_imports[specifier] ? spec.other_imports[specifier] : []
        const o = {}
        for (const n of names) o[n] = n === 'defineComponent' ? W.vue.defineComponent : Object.freeze({ __opq: specifier + ':' + n })
        m = synth(o)
      }
      await m.link(() => {})
      await m.evaluate()
      return m
    })
  } catch (e) {
    errors.push({ name: String(e && e.name), msg: String(e && e.message), during: 'link' })
    return { case: spec.case, events: W.events, exports: [], errors }
  }
  try {
    await mod.evaluate({ timeout: 2000 })
  } catch (e) {
    errors.push({ name: String(e && e.name), msg: String(e && e.message), during: 'import' })
    W.log({ ev: 'throw', name: String(e && e.name), msg: String(e && e.message), during: 'import' })
    return { case: spec.case, events: W.events, exports: [], errors }
  }
  const ns = mod.namespace
  if (typeof ns.$targets === 'function') W.setReader(ns.$targets)
  for (const ex of spec.exports || []) {
    let val
    try {
      if (!(ex.name in ns)) throw new Error('missing export ' + ex.name)
      val = ns[ex.name]
      if (ex.kind === 'thunk' || ex.kind === 'thunk2' || ex.kind === 'new' || ex.kind === 'method') {
        W.log({ ev: 'thunk_begin', name: ex.name })
        if (ex.kind === 'thunk') val = val()
        else if (ex.kind === 'thunk2') val = val()()
        else if (ex.kind === 'new') val = new val().f
        else if (ex.kind === 'method') val = val.m()
        W.log({ ev: 'thunk_end', name: ex.name })
      }
      const c = W.canon(val)
      W.firePending()
      exportsOut.push([ex.name, c])
    } catch (e) {
      errors.push({ name: String(e && e.name), msg: String(e && e.message), during: 'export:' + ex.name })
      W.log({ ev: 'throw', name: String(e && e.name), msg: String(e && e.message), during: 'export:' + ex.name })
      exportsOut.push([ex.name, { t: 'throw', name: String(e && e.name), msg: String(e && e.message) }])
    }
  }
  return { case: spec.case, events: W.events, exports: exportsOut, errors }
}

const rl = readline.createInterface({ input: process.stdin, crlfDelay: Infinity })
for await (const line of rl) {
  if (!line.trim()) continue
  let spec
  try { spec = JSON.parse(line) } catch (e) { console.log(JSON.stringify({ case: '?', tool_error: 'bad json' })); continue }
  let res
  try { res = await runCase(spec) } catch (e) { res = { case: spec.case, events: [], exports: [], errors: [{ name: 'ToolError', msg: String(e && e.stack), during: 'runner' }] } }
  process.stdout.write(JSON.stringify(res) + '\n')
}
