//! Conformance driver: feeds rendered cases to the real `VueJsxTransformVisitor` (built from
//! /repo's working tree with the `verif-trace` hooks on) and records, per case, everything the
//! TLA+ judges look at: printed output, diagnostics, termination kind, JSX census, re-parse,
//! free-variable and binding-identity facts, frame fingerprints, second run / second pass, and
//! the visitor's own hook events.  It decides nothing.
//!
//! Protocol (stdin ndjson → stdout lines):
//!   in : {"case": id, "src": text, "lang": "jsx"|"tsx", "opts": "<json text>", "want": [..]}
//!   out: "B <id>"            before a case starts
//!        "P <phase>"         before each phase (parse|resolve|transform|analyse|print|...)
//!        "R <json>"          the observation record
//! A crash of this process (stack overflow → SIGABRT) therefore leaves a `B`/`P` without `R`;
//! the orchestrator records `abort` for that case at that phase and restarts after it.

use serde::Deserialize;
use serde_json::{json, Value};
use std::{
    collections::{BTreeMap, BTreeSet, HashMap},
    io::{BufRead, Write},
    panic::{catch_unwind, AssertUnwindSafe},
    sync::{Arc, Mutex},
};
use swc_core::{
    common::{
        comments::SingleThreadedComments,
        errors::{DiagnosticBuilder, Emitter, Handler, HANDLER},
        sync::Lrc,
        FileName, Globals, Mark, SourceMap, SyntaxContext, GLOBALS,
    },
    ecma::{
        ast::*,
        codegen::to_code,
        parser::{parse_file_as_module, EsSyntax, Syntax, TsSyntax},
        transforms::base::{fixer::fixer, hygiene::hygiene, resolver},
        visit::{Visit, VisitMutWith, VisitWith},
    },
};
use swc_vue_jsx_visitor::{verif, Options, VueJsxTransformVisitor};

mod erase;

#[derive(Deserialize)]
struct Case {
    case: String,
    src: String,
    lang: String,
    opts: String,
    #[serde(default)]
    want: Vec<String>,
}

struct Collect(Arc<Mutex<Vec<String>>>);
impl Emitter for Collect {
    fn emit(&mut self, db: &DiagnosticBuilder<'_>) {
        self.0
            .lock()
            .unwrap()
            .push(format!("{:?}: {}", db.level, db.message()));
    }
}

fn phase(p: &str) {
    let out = std::io::stdout();
    let mut out = out.lock();
    let _ = writeln!(out, "P {p}");
    let _ = out.flush();
}

fn syntax(lang: &str, jsx: bool) -> Syntax {
    if lang == "tsx" {
        Syntax::Typescript(TsSyntax {
            tsx: jsx,
            ..Default::default()
        })
    } else {
        Syntax::Es(EsSyntax {
            jsx,
            ..Default::default()
        })
    }
}

fn fnv(s: &str) -> String {
    let mut h: u64 = 0xcbf29ce484222325;
    for b in s.bytes() {
        h ^= b as u64;
        h = h.wrapping_mul(0x100000001b3);
    }
    format!("{:012x}", h & 0xffff_ffff_ffff)
}

// ---------------------------------------------------------------------------------------------
// JSX census

#[derive(Default)]
struct Census {
    kinds: BTreeMap<&'static str, usize>,
}
impl Census {
    fn hit(&mut self, k: &'static str) {
        *self.kinds.entry(k).or_default() += 1;
    }
}
impl Visit for Census {
    fn visit_jsx_element(&mut self, n: &JSXElement) {
        self.hit("element");
        n.visit_children_with(self);
    }
    fn visit_jsx_fragment(&mut self, n: &JSXFragment) {
        self.hit("fragment");
        n.visit_children_with(self);
    }
    fn visit_jsx_member_expr(&mut self, n: &JSXMemberExpr) {
        self.hit("member");
        n.visit_children_with(self);
    }
    fn visit_jsx_namespaced_name(&mut self, n: &JSXNamespacedName) {
        self.hit("namespaced");
        n.visit_children_with(self);
    }
    fn visit_jsx_empty_expr(&mut self, _: &JSXEmptyExpr) {
        self.hit("empty");
    }
    fn visit_jsx_text(&mut self, _: &JSXText) {
        self.hit("text");
    }
    fn visit_jsx_expr_container(&mut self, n: &JSXExprContainer) {
        self.hit("container");
        n.visit_children_with(self);
    }
    fn visit_jsx_spread_child(&mut self, n: &JSXSpreadChild) {
        self.hit("spread_child");
        n.visit_children_with(self);
    }
}

fn jsx_count<N: VisitWith<Census>>(n: &N) -> usize {
    let mut c = Census::default();
    n.visit_with(&mut c);
    c.kinds.values().sum()
}

// ---------------------------------------------------------------------------------------------
// identifier occurrences (expression/binding positions only; type positions skipped)

#[derive(Default)]
struct Idents {
    occ: Vec<(String, SyntaxContext)>,
    skip_jsx_names: bool,
}
impl Visit for Idents {
    fn visit_ident(&mut self, n: &Ident) {
        self.occ.push((n.sym.to_string(), n.ctxt));
    }
    fn visit_import_named_specifier(&mut self, n: &ImportNamedSpecifier) {
        n.local.visit_with(self);
    }
    fn visit_export_named_specifier(&mut self, n: &ExportNamedSpecifier) {
        n.orig.visit_with(self);
    }
    fn visit_jsx_element_name(&mut self, n: &JSXElementName) {
        match n {
            JSXElementName::Ident(i) => {
                if !self.skip_jsx_names {
                    i.visit_with(self)
                }
            }
            JSXElementName::JSXMemberExpr(m) => m.obj.visit_with(self),
            JSXElementName::JSXNamespacedName(..) => {}
        }
    }
    fn visit_jsx_closing_element(&mut self, _: &JSXClosingElement) {}
    fn visit_ts_type(&mut self, _: &TsType) {}
    fn visit_ts_type_ann(&mut self, _: &TsTypeAnn) {}
    fn visit_ts_interface_decl(&mut self, _: &TsInterfaceDecl) {}
    fn visit_ts_type_alias_decl(&mut self, _: &TsTypeAliasDecl) {}
    fn visit_ts_type_param_decl(&mut self, _: &TsTypeParamDecl) {}
    fn visit_ts_type_param_instantiation(&mut self, _: &TsTypeParamInstantiation) {}
    fn visit_ts_expr_with_type_args(&mut self, _: &TsExprWithTypeArgs) {}
}

fn canon_partition(occ: &[(String, SyntaxContext)]) -> Vec<usize> {
    let mut seen: HashMap<(String, SyntaxContext), usize> = HashMap::new();
    occ.iter()
        .map(|k| {
            let n = seen.len() + 1;
            *seen.entry(k.clone()).or_insert(n)
        })
        .collect()
}

/// bindings declared in a module: (sym, ctxt) → number of declaration sites
#[derive(Default)]
struct Decls {
    decl: BTreeMap<(String, u32), usize>,
}
impl Decls {
    fn add(&mut self, i: &Ident) {
        *self
            .decl
            .entry((i.sym.to_string(), i.ctxt.as_u32()))
            .or_default() += 1;
    }
}
impl Visit for Decls {
    fn visit_binding_ident(&mut self, n: &BindingIdent) {
        self.add(&n.id);
    }
    fn visit_fn_decl(&mut self, n: &FnDecl) {
        self.add(&n.ident);
        n.function.visit_with(self);
    }
    fn visit_class_decl(&mut self, n: &ClassDecl) {
        self.add(&n.ident);
        n.class.visit_with(self);
    }
    fn visit_import_named_specifier(&mut self, n: &ImportNamedSpecifier) {
        self.add(&n.local);
    }
    fn visit_import_default_specifier(&mut self, n: &ImportDefaultSpecifier) {
        self.add(&n.local);
    }
    fn visit_import_star_as_specifier(&mut self, n: &ImportStarAsSpecifier) {
        self.add(&n.local);
    }
    fn visit_assign_pat_prop(&mut self, n: &AssignPatProp) {
        self.add(&n.key.id);
        n.value.visit_with(self);
    }
}

// ---------------------------------------------------------------------------------------------
// frame fingerprints

thread_local! {
    /// local bindings of Vue's `defineComponent` in the module being analysed: (sym, ctxt)
    static VUE_DC: std::cell::RefCell<Vec<(String, SyntaxContext)>> = const { std::cell::RefCell::new(Vec::new()) };
}

fn collect_vue_define_component(m: &Module) {
    let mut v = vec![];
    for item in &m.body {
        if let ModuleItem::ModuleDecl(ModuleDecl::Import(imp)) = item {
            if &*imp.src.value != "vue" {
                continue;
            }
            for sp in &imp.specifiers {
                if let ImportSpecifier::Named(n) = sp {
                    let imported = match &n.imported {
                        Some(ModuleExportName::Ident(i)) => i.sym.to_string(),
                        Some(ModuleExportName::Str(s)) => s.value.to_string(),
                        None => n.local.sym.to_string(),
                    };
                    if imported == "defineComponent" {
                        v.push((n.local.sym.to_string(), n.local.ctxt));
                    }
                }
            }
        }
    }
    VUE_DC.with(|c| *c.borrow_mut() = v);
}

fn is_vue_define_component(i: &Ident) -> bool {
    VUE_DC.with(|c| c.borrow().iter().any(|(s, cx)| s == &*i.sym && *cx == i.ctxt))
}

struct HasJsx {
    found: bool,
    define_component: bool,
}
impl Visit for HasJsx {
    fn visit_jsx_element(&mut self, _: &JSXElement) {
        self.found = true;
    }
    fn visit_jsx_fragment(&mut self, _: &JSXFragment) {
        self.found = true;
    }
    fn visit_call_expr(&mut self, n: &CallExpr) {
        if self.define_component {
            if let Callee::Expr(e) = &n.callee {
                if let Expr::Ident(i) = &**e {
                    if is_vue_define_component(i) {
                        self.found = true;
                    }
                }
            }
        }
        n.visit_children_with(self);
    }
}

fn permeable<N: VisitWith<HasJsx>>(n: &N, define_component: bool) -> bool {
    let mut h = HasJsx {
        found: false,
        define_component,
    };
    n.visit_with(&mut h);
    h.found
}


fn arrow_sig(n: &ArrowExpr) -> String {
    let params: Vec<String> = n.params.iter().map(|p| to_code(p)).collect();
    fnv(&format!(
        "arrow-sig async={} gen={} params=[{}] tp={} ret={}",
        n.is_async,
        n.is_generator,
        params.join(","),
        n.type_params.as_ref().map(|t| to_code(&**t)).unwrap_or_default(),
        n.return_type.as_ref().map(|t| to_code(&**t)).unwrap_or_default()
    ))
}

fn function_sig(n: &Function) -> String {
    let params: Vec<String> = n.params.iter().map(|p| to_code(p)).collect();
    fnv(&format!(
        "fn-sig async={} gen={} params=[{}] tp={} ret={}",
        n.is_async,
        n.is_generator,
        params.join(","),
        n.type_params.as_ref().map(|t| to_code(&**t)).unwrap_or_default(),
        n.return_type.as_ref().map(|t| to_code(&**t)).unwrap_or_default()
    ))
}

/// input side: pre-order fingerprints of the maximal statements/expressions that contain neither
/// JSX nor (under resolveType) a `defineComponent(...)` call.
struct FrameIn {
    dc: bool,
    fps: Vec<String>,
}
impl Visit for FrameIn {
    fn visit_module_item(&mut self, n: &ModuleItem) {
        if permeable(n, self.dc) {
            n.visit_children_with(self)
        } else {
            self.fps.push(fnv(&to_code(n)))
        }
    }
    fn visit_stmt(&mut self, n: &Stmt) {
        if permeable(n, self.dc) {
            n.visit_children_with(self)
        } else {
            self.fps.push(fnv(&to_code(n)))
        }
    }
    fn visit_expr(&mut self, n: &Expr) {
        match n {
            Expr::JSXElement(..) | Expr::JSXFragment(..) => {}
            _ => {
                if permeable(n, self.dc) {
                    n.visit_children_with(self)
                } else {
                    self.fps.push(fnv(&to_code(n)))
                }
            }
        }
    }
    fn visit_arrow_expr(&mut self, n: &ArrowExpr) {
        // reached only when the arrow is not fingerprinted as a whole (it contains JSX): what the user wrote
        // about the function itself — async, generator, parameters without JSX, type parameters, return type —
        // must survive even if the body is rebuilt
        if !n.params.iter().any(|p| permeable(p, self.dc)) {
            self.fps.push(arrow_sig(n));
        }
        n.visit_children_with(self)
    }
    fn visit_function(&mut self, n: &Function) {
        if !n.params.iter().any(|p| permeable(p, self.dc)) {
            self.fps.push(function_sig(n));
        }
        n.visit_children_with(self)
    }
    fn visit_call_expr(&mut self, n: &CallExpr) {
        // a call of Vue's defineComponent may get options added: an options object literal is
        // looked at entry by entry (each written entry must survive), everything else as usual
        let is_dc = self.dc
            && matches!(&n.callee, Callee::Expr(e) if matches!(&**e, Expr::Ident(i) if is_vue_define_component(i)));
        if !is_dc {
            return n.visit_children_with(self);
        }
        n.callee.visit_with(self);
        for (i, a) in n.args.iter().enumerate() {
            match (&*a.expr, i, a.spread) {
                (Expr::Object(o), 1, None) => o.props.iter().for_each(|p| p.visit_children_with(self)),
                _ => a.visit_with(self),
            }
        }
    }
    fn visit_ts_type(&mut self, _: &TsType) {}
}

/// output side: pre-order fingerprints of every module item, statement and expression.
struct FrameOut {
    fps: Vec<String>,
}
impl Visit for FrameOut {
    fn visit_arrow_expr(&mut self, n: &ArrowExpr) {
        self.fps.push(arrow_sig(n));
        n.visit_children_with(self)
    }
    fn visit_function(&mut self, n: &Function) {
        self.fps.push(function_sig(n));
        n.visit_children_with(self)
    }
    fn visit_module_item(&mut self, n: &ModuleItem) {
        self.fps.push(fnv(&to_code(n)));
        n.visit_children_with(self)
    }
    fn visit_stmt(&mut self, n: &Stmt) {
        self.fps.push(fnv(&to_code(n)));
        n.visit_children_with(self)
    }
    fn visit_expr(&mut self, n: &Expr) {
        match n {
            Expr::JSXElement(..)
            | Expr::JSXFragment(..)
            | Expr::JSXMember(..)
            | Expr::JSXNamespacedName(..)
            | Expr::JSXEmpty(..) => {}
            _ => self.fps.push(fnv(&to_code(n))),
        }
        n.visit_children_with(self)
    }
    fn visit_ts_type(&mut self, _: &TsType) {}
}

// ---------------------------------------------------------------------------------------------

struct RunOut {
    parse_error: Option<String>,
    raw: Option<Module>,   // visitor output, before hygiene/fixer
    input: Option<Module>, // after resolver, before the visitor
    text: Option<String>,  // printed after hygiene+fixer
    diags: Vec<String>,
    panic: Option<String>,
    hooks: Vec<String>,
    unresolved: Option<Mark>,
    unprintable: bool,
}

/// One complete plugin invocation on `src`, the way @swc/core would host it: parse → resolver →
/// visitor → hygiene → fixer → print.  `with_visitor = false` gives the same pipeline without the
/// visitor (the reference for "unchanged").
fn run_once(src: &str, lang: &str, opts: &Options, with_visitor: bool, trace: bool) -> RunOut {
    let cm: Lrc<SourceMap> = Default::default();
    let fm = cm.new_source_file(FileName::Custom("case".into()).into(), src.to_string());
    let comments = SingleThreadedComments::default();
    let mut errs = vec![];
    let mut out = RunOut {
        parse_error: None,
        raw: None,
        input: None,
        text: None,
        diags: vec![],
        panic: None,
        hooks: vec![],
        unresolved: None,
        unprintable: false,
    };
    if trace {
        phase("parse");
    }
    let module = match parse_file_as_module(
        &fm,
        syntax(lang, true),
        EsVersion::latest(),
        Some(&comments),
        &mut errs,
    ) {
        Ok(m) if errs.is_empty() => m,
        Ok(_) => {
            out.parse_error = Some(format!("{:?}", errs[0].kind()));
            return out;
        }
        Err(e) => {
            out.parse_error = Some(format!("{:?}", e.kind()));
            return out;
        }
    };
    let unresolved_mark = Mark::new();
    let top_level_mark = Mark::new();
    out.unresolved = Some(unresolved_mark);
    if trace {
        phase("resolve");
    }
    let mut module = module;
    module.visit_mut_with(&mut resolver(unresolved_mark, top_level_mark, lang == "tsx"));
    out.input = Some(module.clone());

    if with_visitor {
        if trace {
            phase("transform");
        }
        let diags = Arc::new(Mutex::new(vec![]));
        let handler = Handler::with_emitter(true, false, Box::new(Collect(diags.clone())));
        let _ = verif::take();
        let res = catch_unwind(AssertUnwindSafe(|| {
            HANDLER.set(&handler, || {
                let mut v =
                    VueJsxTransformVisitor::new(opts.clone(), unresolved_mark, Some(comments.clone()));
                module.visit_mut_with(&mut v);
            })
        }));
        out.hooks = verif::take();
        out.diags = diags.lock().unwrap().clone();
        if let Err(e) = res {
            let msg = e
                .downcast_ref::<String>()
                .cloned()
                .or_else(|| e.downcast_ref::<&str>().map(|s| s.to_string()))
                .unwrap_or_else(|| "panic".into());
            out.panic = Some(msg);
            return out;
        }
    }
    out.raw = Some(module.clone());
    if trace {
        phase("print");
    }
    let res = catch_unwind(AssertUnwindSafe(|| {
        module.visit_mut_with(&mut hygiene());
        module.visit_mut_with(&mut fixer(Some(&comments)));
        swc_core::ecma::codegen::to_code_default(cm.clone(), Some(&comments), &module)
    }));
    match res {
        Ok(t) => out.text = Some(t),
        // the printer / fixer gave up on the AST it was handed: the transform returned, its output is not a program
        Err(_) => out.unprintable = true,
    }
    out
}

fn free_idents(m: &Module, unresolved: Mark, skip_jsx_names: bool) -> BTreeSet<String> {
    let mut v = Idents {
        occ: vec![],
        skip_jsx_names,
    };
    m.visit_with(&mut v);
    v.occ
        .into_iter()
        .filter(|(_, c)| c.outer() == unresolved)
        .map(|(s, _)| s)
        .collect()
}

fn reparse(text: &str, lang: &str, jsx: bool) -> Result<(Module, Mark), String> {
    let cm: Lrc<SourceMap> = Default::default();
    let fm = cm.new_source_file(FileName::Custom("out".into()).into(), text.to_string());
    let mut errs = vec![];
    match parse_file_as_module(&fm, syntax(lang, jsx), EsVersion::latest(), None, &mut errs) {
        Ok(mut m) if errs.is_empty() => {
            let u = Mark::new();
            m.visit_mut_with(&mut resolver(u, Mark::new(), lang == "tsx"));
            Ok((m, u))
        }
        Ok(_) => Err(format!("{:?}", errs[0].kind())),
        Err(e) => Err(format!("{:?}", e.kind())),
    }
}

fn observe(c: &Case) -> Value {
    let want = |k: &str| c.want.is_empty() || c.want.iter().any(|w| w == k);
    let mut rec = serde_json::Map::new();
    rec.insert("case".into(), json!(c.case));

    // options exactly as plugin/src/lib.rs reads them
    let opts: Options = match serde_json::from_str::<Options>(&c.opts) {
        Ok(o) => {
            rec.insert("config_error".into(), json!({"t": "none"}));
            o
        }
        Err(e) => {
            rec.insert("config_error".into(), json!({"t": "some", "msg": e.to_string()}));
            rec.insert("term".into(), json!({"k": "config_error"}));
            return Value::Object(rec);
        }
    };

    let r1 = GLOBALS.set(&Globals::new(), || {
        let r = run_once(&c.src, &c.lang, &opts, true, true);
        let mut extra = serde_json::Map::new();
        if r.parse_error.is_none() && r.panic.is_none() {
            phase("analyse");
            let raw = r.raw.as_ref().unwrap();
            let input = r.input.as_ref().unwrap();
            collect_vue_define_component(input);
            let unresolved = r.unresolved.unwrap();
            // census on the AST the next pass would receive
            let mut cs = Census::default();
            raw.visit_with(&mut cs);
            let total: usize = cs.kinds.values().sum();
            extra.insert(
                "census".into(),
                json!({"jsx": total, "kinds": cs.kinds.keys().collect::<Vec<_>>()}),
            );
            extra.insert("jsx_in".into(), json!(jsx_count(input)));
            extra.insert(
                "uses_define_component".into(),
                json!(opts.resolve_type && permeable(input, true) && jsx_count(input) == 0 || {
                    let mut h = HasJsx { found: false, define_component: true };
                    // a defineComponent call anywhere (with or without JSX) may be augmented under resolveType
                    struct OnlyDc<'a>(&'a mut HasJsx);
                    impl Visit for OnlyDc<'_> {
                        fn visit_call_expr(&mut self, n: &CallExpr) {
                            if let Callee::Expr(e) = &n.callee {
                                if let Expr::Ident(i) = &**e {
                                    if is_vue_define_component(i) {
                                        self.0.found = true;
                                    }
                                }
                            }
                            n.visit_children_with(self);
                        }
                    }
                    input.visit_with(&mut OnlyDc(&mut h));
                    opts.resolve_type && h.found
                }),
            );
            if want("scope") {
                let free_in = free_idents(input, unresolved, true);
                extra.insert("free_in".into(), json!(free_in));
                // identifier classes of the raw output
                let mut ids = Idents::default();
                raw.visit_with(&mut ids);
                extra.insert("ids_raw".into(), json!(canon_partition(&ids.occ)));
                // generated bindings: declared in the output under a syntax context the input
                // does not contain
                let mut in_ctx: BTreeSet<u32> = BTreeSet::new();
                let mut ii = Idents::default();
                input.visit_with(&mut ii);
                for (_, cx) in &ii.occ {
                    in_ctx.insert(cx.as_u32());
                }
                let mut d = Decls::default();
                raw.visit_with(&mut d);
                let mut gen = vec![];
                for ((sym, cx), n) in &d.decl {
                    if !in_ctx.contains(cx) || *cx == 0 {
                        let occs = ids
                            .occ
                            .iter()
                            .filter(|(s, c2)| s == sym && c2.as_u32() == *cx)
                            .count();
                        gen.push(json!({"name": sym, "decls": n, "uses": occs - n}));
                    }
                }
                extra.insert("gen".into(), json!(gen));
                // occurrences that are neither from the input nor declared by the transform
                let declared: BTreeSet<(String, u32)> = d.decl.keys().cloned().collect();
                let mut loose: BTreeSet<String> = BTreeSet::new();
                for (s, cx) in &ids.occ {
                    if !in_ctx.contains(&cx.as_u32()) && !declared.contains(&(s.clone(), cx.as_u32()))
                    {
                        loose.insert(s.clone());
                    }
                }
                extra.insert("loose".into(), json!(loose));
            }
            if want("frame") {
                let mut fi = FrameIn {
                    dc: opts.resolve_type,
                    fps: vec![],
                };
                input.visit_with(&mut fi);
                let mut fo = FrameOut { fps: vec![] };
                raw.visit_with(&mut fo);
                extra.insert("frame_in".into(), json!(fi.fps));
                extra.insert("frame_out".into(), json!(fo.fps));
                extra.insert("items_in".into(), json!(input.body.len()));
                extra.insert("items_out".into(), json!(raw.body.len()));
            }
        }
        (r, extra)
    });
    let (r, extra) = r1;
    if let Some(e) = &r.parse_error {
        rec.insert("term".into(), json!({"k": "parse_error", "msg": e}));
        return Value::Object(rec);
    }
    rec.insert("diag".into(), json!(r.diags));
    rec.insert(
        "hooks".into(),
        Value::Array(
            r.hooks
                .iter()
                .map(|h| serde_json::from_str(h).unwrap_or(json!({"ev": "bad", "raw": h})))
                .collect(),
        ),
    );
    if let Some(p) = &r.panic {
        rec.insert("term".into(), json!({"k": "panic", "msg": p}));
        return Value::Object(rec);
    }
    rec.insert("term".into(), json!({"k": "return"}));
    for (k, v) in extra {
        rec.insert(k, v);
    }
    if r.unprintable {
        rec.insert("out".into(), json!(""));
        rec.insert("unprintable".into(), json!(true));
        rec.insert("reparse".into(), json!({"t": "error", "msg": "the printer panicked on the transform's output"}));
        rec.insert("run2_same".into(), json!(true));
        rec.insert("out_hash".into(), json!("unprintable"));
        rec.insert("pass2".into(), json!("unparseable"));
        rec.insert("same_as_novisitor".into(), json!(false));
        return Value::Object(rec);
    }
    let text = r.text.clone().unwrap();
    rec.insert("out".into(), json!(text));

    // re-parse as a plain (non-JSX) module of the same language
    phase("reparse");
    GLOBALS.set(&Globals::new(), || match reparse(&text, &c.lang, false) {
        Ok((m, u)) => {
            rec.insert("reparse".into(), json!({"t": "ok"}));
            if want("scope") {
                rec.insert("free_out".into(), json!(free_idents(&m, u, false)));
                let mut ids = Idents::default();
                m.visit_with(&mut ids);
                rec.insert("ids_out".into(), json!(canon_partition(&ids.occ)));
            }
            if want("js") {
                let mut m2 = m.clone();
                m2.visit_mut_with(&mut erase::Eraser);
                rec.insert("out_js".into(), json!(to_code(&m2)));
            }
        }
        Err(e) => {
            rec.insert("reparse".into(), json!({"t": "error", "msg": e}));
        }
    });

    // unchanged-ness reference: the same pipeline without the visitor
    if want("frame") {
        phase("reference");
        let r0 = GLOBALS.set(&Globals::new(), || run_once(&c.src, &c.lang, &opts, false, false));
        rec.insert("same_as_novisitor".into(), json!(r0.text.as_deref() == Some(&text)));
    }

    // determinism: a second, independent invocation in this process
    if want("det") {
        phase("second_run");
        let r2 = GLOBALS.set(&Globals::new(), || run_once(&c.src, &c.lang, &opts, true, false));
        rec.insert(
            "run2_same".into(),
            json!(r2.text.as_deref() == Some(&text) && r2.diags == r.diags),
        );
        rec.insert("out_hash".into(), json!(fnv(&text)));
    }

    // idempotence: the transform applied to its own output vs. the no-visitor pipeline on it
    if want("idem") {
        phase("second_pass");
        let (a, b) = GLOBALS.set(&Globals::new(), || {
            (
                run_once(&text, &c.lang, &opts, true, false),
                run_once(&text, &c.lang, &opts, false, false),
            )
        });
        let st = if a.parse_error.is_some() || b.parse_error.is_some() {
            "unparseable"
        } else if a.panic.is_some() {
            "panic"
        } else if a.text == b.text {
            "same"
        } else {
            "changed"
        };
        rec.insert("pass2".into(), json!(st));
        if st == "changed" {
            rec.insert("pass2_out".into(), json!(a.text));
        }
    }
    Value::Object(rec)
}

fn main() {
    let stack = std::env::var("VJSX_STACK_MB")
        .ok()
        .and_then(|s| s.parse::<usize>().ok())
        .unwrap_or(8);
    // silence the default panic message; panics of the code under test are data
    std::panic::set_hook(Box::new(|_| {}));
    let h = std::thread::Builder::new()
        .stack_size(stack << 20)
        .spawn(|| {
            let stdin = std::io::stdin();
            for line in stdin.lock().lines() {
                let Ok(line) = line else { break };
                if line.trim().is_empty() {
                    continue;
                }
                let c: Case = match serde_json::from_str(&line) {
                    Ok(c) => c,
                    Err(e) => {
                        println!("E bad case line: {e}");
                        continue;
                    }
                };
                {
                    let out = std::io::stdout();
                    let mut out = out.lock();
                    let _ = writeln!(out, "B {}", c.case);
                    let _ = out.flush();
                }
                let v = observe(&c);
                let out = std::io::stdout();
                let mut out = out.lock();
                let _ = writeln!(out, "R {}", v);
                let _ = out.flush();
            }
        })
        .unwrap();
    let _ = h.join();
}
