//! Minimal TypeScript type eraser for the TS subset the generators emit (swc's own
//! `typescript::strip` is not in the offline crate cache). Applied only to the copy of the output
//! that node evaluates; every check about the *output itself* looks at the un-erased text.

use swc_core::ecma::{
    ast::*,
    visit::{VisitMut, VisitMutWith},
};

pub struct Eraser;

fn is_type_only_item(item: &ModuleItem) -> bool {
    match item {
        ModuleItem::Stmt(Stmt::Decl(Decl::TsInterface(..) | Decl::TsTypeAlias(..))) => true,
        ModuleItem::Stmt(Stmt::Decl(Decl::Fn(f))) => f.declare,
        ModuleItem::Stmt(Stmt::Decl(Decl::Var(v))) => v.declare,
        ModuleItem::Stmt(Stmt::Decl(Decl::Class(c))) => c.declare,
        ModuleItem::Stmt(Stmt::Decl(Decl::TsEnum(e))) => e.declare,
        ModuleItem::ModuleDecl(ModuleDecl::ExportDecl(ExportDecl {
            decl: Decl::TsInterface(..) | Decl::TsTypeAlias(..),
            ..
        })) => true,
        ModuleItem::ModuleDecl(ModuleDecl::Import(i)) => i.type_only,
        ModuleItem::ModuleDecl(ModuleDecl::ExportNamed(e)) => e.type_only,
        _ => false,
    }
}

impl VisitMut for Eraser {
    fn visit_mut_module_items(&mut self, items: &mut Vec<ModuleItem>) {
        items.retain(|i| !is_type_only_item(i));
        for i in items.iter_mut() {
            if let ModuleItem::ModuleDecl(ModuleDecl::Import(imp)) = i {
                imp.specifiers.retain(|s| match s {
                    ImportSpecifier::Named(n) => !n.is_type_only,
                    _ => true,
                });
            }
        }
        items.visit_mut_children_with(self);
    }
    fn visit_mut_stmts(&mut self, stmts: &mut Vec<Stmt>) {
        stmts.retain(|s| {
            !matches!(
                s,
                Stmt::Decl(Decl::TsInterface(..) | Decl::TsTypeAlias(..))
            ) && !matches!(s, Stmt::Decl(Decl::TsEnum(e)) if e.declare)
        });
        stmts.visit_mut_children_with(self);
    }
    fn visit_mut_binding_ident(&mut self, n: &mut BindingIdent) {
        n.type_ann = None;
        n.id.optional = false;
    }
    fn visit_mut_array_pat(&mut self, n: &mut ArrayPat) {
        n.type_ann = None;
        n.optional = false;
        n.visit_mut_children_with(self);
    }
    fn visit_mut_object_pat(&mut self, n: &mut ObjectPat) {
        n.type_ann = None;
        n.optional = false;
        n.visit_mut_children_with(self);
    }
    fn visit_mut_rest_pat(&mut self, n: &mut RestPat) {
        n.type_ann = None;
        n.visit_mut_children_with(self);
    }
    fn visit_mut_function(&mut self, n: &mut Function) {
        n.return_type = None;
        n.type_params = None;
        n.visit_mut_children_with(self);
    }
    fn visit_mut_arrow_expr(&mut self, n: &mut ArrowExpr) {
        n.return_type = None;
        n.type_params = None;
        n.visit_mut_children_with(self);
    }
    fn visit_mut_call_expr(&mut self, n: &mut CallExpr) {
        n.type_args = None;
        n.visit_mut_children_with(self);
    }
    fn visit_mut_new_expr(&mut self, n: &mut NewExpr) {
        n.type_args = None;
        n.visit_mut_children_with(self);
    }
    fn visit_mut_class_prop(&mut self, n: &mut ClassProp) {
        n.type_ann = None;
        n.visit_mut_children_with(self);
    }
    fn visit_mut_class(&mut self, n: &mut Class) {
        n.type_params = None;
        n.super_type_params = None;
        n.implements.clear();
        n.visit_mut_children_with(self);
    }
    fn visit_mut_expr(&mut self, e: &mut Expr) {
        loop {
            let inner = match e {
                Expr::TsAs(TsAsExpr { expr, .. })
                | Expr::TsNonNull(TsNonNullExpr { expr, .. })
                | Expr::TsTypeAssertion(TsTypeAssertion { expr, .. })
                | Expr::TsConstAssertion(TsConstAssertion { expr, .. })
                | Expr::TsSatisfies(TsSatisfiesExpr { expr, .. })
                | Expr::TsInstantiation(TsInstantiation { expr, .. }) => (**expr).clone(),
                _ => break,
            };
            *e = inner;
        }
        e.visit_mut_children_with(self);
    }
}
