"""Dumb pretty-printer: abstract case (TLA+ record, as JSON) -> JSX/TSX source text + the probe
environment the runtime observer installs.  It makes no choices: every name, value and shape is
fixed by the specification (spec/Source.tla); this file only spells them."""
import json

SYM = {
    "sp": " ", "tab": "\t", "lf": "\n", "cr": "\r", "crlf": "\r\n", "nbsp": " ",
    "ideo": "　", "ls": " ", "emsp": " ", "bom": "﻿",
    "a": "a", "b": "b", "c": "c", "amp": "&amp;", "nbspE": "&nbsp;", "spE": "&#32;", "lt": "&lt;",
    "bs": "\\", "bsn": "\\n", "apos": "&apos;", "lfE": "&#10;", "tabE": "&#9;",
    "w_checkbox": "checkbox", "w_radio": "radio", "w_text": "text", "w_number": "number",
}


def syms_text(syms):
    return "".join(SYM[s] for s in syms)


def js_str(cp):
    return json.dumps("".join(chr(c) for c in cp))


class Ctx:
    def __init__(self):
        self.env = {}
        self.vals = {}
        self.prelude = []      # declarations of bound identifiers
        self.declared = set()
        self.targets = []      # v-model targets to read back
        self.imports = []      # extra import lines
        self.other_imports = {}
        self.pragmas = []
        self.lets = set()

    def bind(self, name, rv, kind="const"):
        if name in self.declared:
            return
        self.declared.add(name)
        self.vals[name] = rv
        self.prelude.append(f"{kind} {name} = $v({json.dumps(name)});")

    def leaf_ident(self, e):
        if e.get("bound"):
            self.bind(e["name"], e["rv"], "let" if e["name"] in self.lets else "const")
        else:
            self.env[e["name"]] = {"k": "getter", "rv": e["rv"]}

    def leaf_member(self, obj, prop, rv):
        ent = self.env.setdefault(obj, {"k": "obj", "props": {}})
        ent["props"][prop] = rv


def value_lit(v):
    t = v["t"]
    if t == "str":
        return js_str(v["cp"])
    if t == "num":
        return str(v["n"])
    if t == "bool":
        return "true" if v["b"] else "false"
    if t == "null":
        return "null"
    if t == "undef":
        return "undefined"
    raise ValueError("literal " + t)


def expr(e, cx):
    k = e["k"]
    if k == "ident":
        cx.leaf_ident(e)
        return e["name"]
    if k == "call":
        cx.env[e["name"]] = {"k": "fn", "rv": e["rv"]}
        return e["name"] + "()"
    if k == "member":
        cx.leaf_member(e["obj"], e["prop"], e["rv"])
        return f'{e["obj"]}.{e["prop"]}'
    if k == "index":
        cx.leaf_member(e["obj"], e["prop"], e["rv"])
        return f'{e["obj"]}[{json.dumps(e["prop"])}]'
    if k == "lit":
        return value_lit(e["v"])
    if k == "undefined":
        return "undefined"
    if k == "objlit":
        parts = []
        for key, ex in e["es"]:
            kk = key if key.isidentifier() else json.dumps(key)
            parts.append(f"{kk}: {expr(ex, cx)}")
        return "{ " + ", ".join(parts) + " }" if parts else "{}"
    if k == "objlitc":
        return "{ " + ", ".join(f"[{expr(ke, cx)}]: {expr(ex, cx)}" for ke, _key, ex in e["ces"]) + " }"
    if k == "arrlit":
        return "[" + ", ".join(expr(x, cx) for x in e["xs"]) + "]"
    if k == "arrow":
        b = expr(e["body"], cx)
        return f"() => ({b})" if e["body"]["k"] == "objlit" else f"() => {b}"
    if k == "fnexpr":
        return "function () { return " + expr(e["body"], cx) + "; }"
    if k == "wrap":
        inner = expr(e["e"], cx)
        f = e["form"]
        return {
            "paren": f"({inner})", "cond": f"(true ? {inner} : 0)", "seq": f"(0, {inner})",
            "or": f"({inner} || 0)", "nullish": f"({inner} ?? 0)", "tpl": f"`${{{inner}}}`",
            "and": f"(true && {inner})", "optchain": f"({inner})",
            "tsnonnull": f"{inner}!", "tsas": f"{inner} as any",      # TypeScript-only wrappers (lang tsx)
        }[f]
    if k == "raw":               # escape hatch for grid cases: literal source text
        for n, spec in (e.get("env") or {}).items():
            cx.env[n] = spec
        return e["text"]
    raise ValueError("expr kind " + k)


def attr_val(v, cx):
    k = v["k"]
    if k == "none":
        return ""
    if k == "str":
        return '="' + syms_text(v["syms"]) + '"'
    if k == "expr":
        return "={" + expr(v["e"], cx) + "}"
    if k == "arr":
        parts = [expr(v["v"], cx)]
        if v["hasArg"]:
            parts.append(expr(v["arg"], cx))
        if v["hasMods"]:
            parts.append("[" + ", ".join(json.dumps(m) for m in v["mods"]) + "]")
        return "={[" + ", ".join(parts) + "]}"
    if k == "elem":
        return "=" + elem(v["el"], cx)
    if k == "empty":
        return "={}"
    raise ValueError("attr val " + k)


def dir_name(d):
    """spelling of a directive attribute name from its structured form"""
    words = d["words"]
    if d["style"] == "kebab":
        base = "v-" + "-".join(words)
    else:
        base = "v" + "".join(w[:1].upper() + w[1:] for w in words)
    if d.get("arg"):
        base += ":" + d["arg"]
    for m in d.get("mods", []):
        base += "_" + m
    return base


def attr(a, cx):
    k = a["k"]
    if k == "plain":
        return a["name"] + attr_val(a["val"], cx)
    if k == "ns":
        return f'{a["ns"]}:{a["name"]}' + attr_val(a["val"], cx)
    if k == "spread":
        return "{..." + expr(a["e"], cx) + "}"
    if k == "dir":
        return dir_name(a) + attr_val(a["val"], cx)
    if k in ("vhtml", "vtext"):
        name = {"vhtml": "v-html", "vtext": "v-text"}[k]
        if "val" in a:
            return name + attr_val(a["val"], cx)
        return name + "={" + expr(a["e"], cx) + "}"
    if k == "vslots":
        return "v-slots={" + expr(a["e"], cx) + "}"
    if k == "vmodel":
        return vmodel_attr(a, cx)
    if k == "vmodels":
        parts = []
        for m in a["list"]:
            parts.append(vmodel_array(m, cx, True))
        return "v-models={[" + ", ".join(parts) + "]}"
    if k == "rawattr":
        for n, spec in (a.get("env") or {}).items():
            cx.env[n] = spec
        return a["text"]
    raise ValueError("attr kind " + k)


def target_expr(t, cx):
    """v-model target: identifier (bound, `let`), member, or index"""
    if t["k"] == "ident":
        if t.get("bound"):
            cx.lets.add(t["name"])
            cx.bind(t["name"], t["rv"], "let")
        else:
            cx.env[t["name"]] = {"k": "getter", "rv": t["rv"]}
        cx.targets.append((t["name"], t["name"]))
        return t["name"]
    if t["k"] == "member":
        cx.leaf_member(t["obj"], t["prop"], t["rv"])
        cx.targets.append((f'{t["obj"]}.{t["prop"]}', f'{t["obj"]}.{t["prop"]}'))
        return f'{t["obj"]}.{t["prop"]}'
    if t["k"] == "index":
        cx.leaf_member(t["obj"], t["prop"], t["rv"])
        cx.targets.append((f'{t["obj"]}.{t["prop"]}', f'{t["obj"]}[{json.dumps(t["prop"])}]'))
        return f'{t["obj"]}[{json.dumps(t["prop"])}]'
    raise ValueError("target " + t["k"])


def vmodel_array(m, cx, force_array=False):
    """[target, arg?, [mods]?] for the array forms"""
    parts = [target_expr(m["target"], cx)]
    af = m.get("argform", "none")
    if af == "str2":
        parts.append(json.dumps(m["arg"]))
    elif af == "computed2":
        parts.append(expr(m["argexpr"], cx))
    if m.get("modform") == "array":
        parts.append("[" + ", ".join(json.dumps(x) for x in m["mods"]) + "]")
    return "[" + ", ".join(parts) + "]"


def vmodel_attr(m, cx):
    name = "v-model" if m.get("style", "kebab") == "kebab" else "vModel"
    if m.get("argform") == "colon":
        name += ":" + m["arg"]
    if m.get("modform") == "suffix":
        for x in m["mods"]:
            name += "_" + x
    need_array = m.get("argform") in ("str2", "computed2") or m.get("modform") in ("array", "array1") or m.get("array")
    if need_array:
        return name + "={" + vmodel_array(m, cx) + "}"
    return name + "={" + target_expr(m["target"], cx) + "}"


def child(c, cx):
    k = c["k"]
    if k == "text":
        return syms_text(c["syms"])
    if k == "expr":
        return "{" + expr(c["e"], cx) + "}"
    if k == "empty":
        return "{}"
    if k == "comment":
        return "{/* c */}"
    if k == "spread":
        return "{..." + expr(c["e"], cx) + "}"
    if k == "elem":
        return elem(c["el"], cx)
    if k == "rawchild":
        for n, spec in (c.get("env") or {}).items():
            cx.env[n] = spec
        return c["text"]
    raise ValueError("child kind " + k)


def tag_name(t, cx):
    k = t["k"]
    if k in ("html", "custom"):
        if t.get("bound"):
            cx.bind(t["name"], t["rv"])
        return t["name"]
    if k == "comp":
        if t["bound"]:
            cx.bind(t["name"], t["rv"])
        return t["name"]
    if k == "member":
        cx.leaf_member(t["obj"], t["prop"], t["rv"])
        return f'{t["obj"]}.{t["prop"]}'
    if k == "this":
        return "this." + t["prop"]
    if k == "Fragment":
        return "Fragment"
    if k == "KeepAlive":
        if t.get("how") == "imported" and "import { KeepAlive } from 'vue';" not in cx.imports:
            cx.imports.append("import { KeepAlive } from 'vue';")
        return "KeepAlive"
    if k == "nsname":
        return f'{t["ns"]}:{t["name"]}'
    if k == "rawtag":
        return t["text"]
    raise ValueError("tag kind " + k)


def elem(el, cx):
    t = el["tag"]
    attrs = "".join(" " + attr(a, cx) for a in el["attrs"])
    kids = "".join(child(c, cx) for c in el["children"])
    if t["k"] == "frag":
        return "<>" + kids + "</>"
    name = tag_name(t, cx)
    if not el["children"] and not el.get("explicit_close"):
        return f"<{name}{attrs} />"
    return f"<{name}{attrs}>{kids}</{name}>"


def context_wrap(ctx, name, inner):
    """Appendix E: the syntactic context a JSX site occupies; returns (source, export kind)"""
    if ctx == "module":
        return f"export const {name} = {inner};", "value"
    if ctx == "fn":
        return f"export function {name}() {{ return {inner}; }}", "thunk"
    if ctx == "arrow_expr":
        return f"export const {name} = () => {inner};", "thunk"
    if ctx == "arrow_block":
        return f"export const {name} = () => {{ return {inner}; }};", "thunk"
    if ctx == "arrow_arrow":
        return f"export const {name} = () => () => {inner};", "thunk2"
    if ctx == "class_field":
        return f"export class {name} {{ f = {inner}; }}", "new"
    if ctx == "method":
        return f"export const {name} = {{ m() {{ return {inner}; }} }};", "method"
    if ctx == "default_param":
        return f"export function {name}(p = {inner}) {{ return p; }}", "thunk"
    if ctx == "block":
        return f"let {name}_v; {{ {name}_v = {inner}; }} export const {name} = {name}_v;", "value"
    if ctx == "loop":
        return f"const {name}_r = []; for (const i of [0]) {{ {name}_r.push({inner}); }} export const {name} = {name}_r[0];", "value"
    # the site evaluated twice, the FIRST result observed afterwards ($iter.v = 1 marks the later evaluation: whatever
    # a call returns then is a stale marker that must not reach the first vnode)
    if ctx == "loop_first":
        return (f"const {name}_r = []; for (const i of [0, 1]) {name}_r.push(($iter.v = i, {inner})); $iter.v = 0; "
                f"export const {name} = () => {name}_r[0];"), "thunk"
    if ctx == "while_first":
        return (f"const {name}_r = []; let {name}_i = 0; while ({name}_i < 2) {name}_r.push(($iter.v = {name}_i++, {inner})); $iter.v = 0; "
                f"export const {name} = () => {name}_r[0];"), "thunk"
    if ctx == "calls_first":
        return (f"function {name}_f() {{ return {inner}; }} const {name}_0 = {name}_f(); $iter.v = 1; {name}_f(); $iter.v = 0; "
                f"export const {name} = () => {name}_0;"), "thunk"
    if ctx == "field_first":
        return (f"class {name}_K {{ f = {inner}; }} const {name}_0 = new {name}_K(); $iter.v = 1; new {name}_K(); $iter.v = 0; "
                f"export const {name} = () => {name}_0.f;"), "thunk"
    if ctx == "param_first":
        return (f"function {name}_f(p = {inner}) {{ return p; }} const {name}_0 = {name}_f(); $iter.v = 1; {name}_f(); $iter.v = 0; "
                f"export const {name} = () => {name}_0;"), "thunk"
    if ctx == "if_unbraced":
        return f"let {name}_v; if (true) {name}_v = {inner}; export const {name} = {name}_v;", "value"
    raise ValueError("context " + ctx)


def render_vmodule(case, cx):
    """Visitor.tla module (tree of items) -> statements.  Every JSX site is written as
    `($out.sN = <site>)` so that its value is observable wherever it occurs; nested functions,
    arrows and classes are invoked right after their declaration so that their sites run."""
    sites = list(case["sites"])
    variant = case.get("variant", 0)
    if '"k": "assign"' in json.dumps(case["module"]):
        cx.lets.add("a")
        cx.bind("a", {"t": "pvnode", "id": "pva"}, "let")
        cx.vals["a2"] = {"t": "pvnode", "id": "pva2"}
    pos = [0]
    ctr = [0]

    def fresh(prefix):
        ctr[0] += 1
        return f"{prefix}{ctr[0]}"

    def site_expr():
        s = sites[pos[0]]
        pos[0] += 1
        if s.get("kind") == "dc":
            return f'($out.{s["id"]} = defineComponent((props: {{ a?: string, n: number }}) => () => null))'
        return f'($out.{s["id"]} = {elem(s["elem"], cx)})'

    def item_expr(it):
        k = it["k"]
        if k == "site":
            return site_expr()
        if k == "assign":
            return it.get("x", "a") + " = " + (site_expr() if it["rhs"]["k"] == "site" else "$v(\"a2\")")
        if k == "plain":
            return "($out.p = 1)"
        if k == "arrow":
            return "() => " + item_expr(it["item"])
        if k == "arrowp":
            par = site_expr()          # the parameter default is visited (and numbered) before the body
            return f"(p = {par}) => " + item_expr(it["item"])
        raise ValueError("item in expression position: " + k)

    def calls(it):
        n = 1
        while it["k"] in ("arrow", "arrowp") and it["item"]["k"] in ("arrow", "arrowp"):
            n += 1
            it = it["item"]
        return "()" * n

    def stmts(items, ind):
        out = []
        pad = "  " * ind
        for it in items:
            k = it["k"]
            if k in ("site", "assign"):
                if k == "assign":
                    x = it.get("x", "a")
                    cx.lets.add(x)
                    cx.bind(x, {"t": "pvnode", "id": "pva"}, "let")
                    cx.vals["a2"] = {"t": "pvnode", "id": "pva2"}
                out.append(pad + item_expr(it) + ";")
            elif k == "plain":
                out.append(pad + "$out.p = 1;")
            elif k == "userdecl":
                out.append(pad + f'const {it["name"]} = "user{it["name"]}"; $out.u{it["name"]} = {it["name"]};')
            elif k == "fn":
                g = fresh("g")
                form = ("decl", "method", "getter", "static", "decl", "fnexpr", "method", "async")[variant % 8]
                if form == "async" and ind > 0:
                    form = "fnexpr"        # (an awaited call needs the module level)
                inner = stmts(it["body"], ind + 1)
                if form == "decl":
                    out += [pad + f"function {g}() {{"] + inner + [pad + f"}} {g}();"]
                elif form == "method":
                    out += [pad + f"class {g} {{ m() {{"] + inner + [pad + f"}} }} new {g}().m();"]
                elif form == "getter":
                    out += [pad + f"class {g} {{ get v() {{"] + inner + [pad + f"return 1; }} }} new {g}().v;"]
                elif form == "static":
                    out += [pad + f"class {g} {{ static {{"] + inner + [pad + "} }"]
                elif form == "fnexpr":
                    out += [pad + f"const {g} = function () {{"] + inner + [pad + f"}}; {g}();"]
                else:
                    # awaited, so that an error inside is an error of the evaluation (top-level await at module level only)
                    out += [pad + f"const {g} = {{ async m() {{"] + inner + [pad + f"}} }}; " + f"await {g}.m();"]
            elif k == "fnparam":
                g = fresh("d")
                out.append(pad + f"function {g}(p = {site_expr()}) {{")
                out += stmts(it["body"], ind + 1)
                out.append(pad + f"}} {g}();")
            elif k in ("arrow", "arrowp"):
                g = fresh("w")
                out.append(pad + f"const {g} = {item_expr(it)}; {g}{calls(it)};")
            elif k == "arrowblockp":
                g = fresh("b")
                out.append(pad + f"const {g} = (p = {site_expr()}) => {{")
                out += stmts(it["body"], ind + 1)
                out.append(pad + f"}}; {g}();")
            elif k == "arrowblock":
                g = fresh("b")
                out.append(pad + f"const {g} = () => {{")
                out += stmts(it["body"], ind + 1)
                out.append(pad + f"}}; {g}();")
            elif k == "block":
                form = ("plain", "switch", "forof", "dowhile", "label", "while", "if", "else")[variant % 8]
                inner = stmts(it["body"], ind + 1)
                if form == "plain":
                    out += [pad + "{"] + inner + [pad + "}"]
                elif form == "switch":
                    out += [pad + "switch (1) { case 1:"] + inner + [pad + "}"]
                elif form == "forof":
                    out += [pad + f"for (const {fresh('q')} of [1]) {{"] + inner + [pad + "}"]
                elif form == "dowhile":
                    out += [pad + "do {"] + inner + [pad + "} while (false);"]
                elif form == "else":
                    out += [pad + "if (false) ; else {"] + inner + [pad + "}"]
                elif form == "label":
                    out += [pad + f"{fresh('lbl')}: {{"] + inner + [pad + "}"]
                elif form == "while":
                    w = fresh("w")
                    out += [pad + f"let {w} = 0; while ({w}++ < 1) {{"] + inner + [pad + "}"]
                else:
                    out += [pad + "if (true) {"] + inner + [pad + "}"]
            elif k == "vueimport":
                imp, loc = it["names"]
                out.append(pad + (f"import {{ {imp} }} from 'vue';" if imp == loc else f"import {{ {imp} as {loc} }} from 'vue';")
                           + f" $out.{fresh('i')} = typeof {loc};")
            elif k == "classfield":
                g = fresh("K")
                out.append(pad + f"class {g} {{ f = {site_expr()}; }} new {g}();")
            else:
                raise ValueError("vmodule item " + k)
        return out

    body = stmts(case["module"], 0)
    if any(s.get("kind") == "dc" for s in sites):
        body.insert(0, "import { defineComponent } from 'vue';")
    body.append("export const $all = $out;")
    return body


# ------------------------------------------------------------------ TypeScript (resolveType) cases

def ts_key(m):
    if m["keykind"] == "str":
        return "'" + m["key"] + "'"
    return m["key"]


def ts_member(m):
    k = m["k"]
    if k == "prop":
        return f'{ts_key(m)}{"?" if m["optional"] else ""}: {ts_type(m["type"])}'
    if k == "method":
        return f'{ts_key(m)}{"?" if m["optional"] else ""}(): void'
    if k == "getter":
        return f'get {ts_key(m)}(): {ts_type(m["type"])}'
    if k == "call":
        return f'(e: {ts_type(m["type"]["param"])}, ...args: any[]): void'
    raise ValueError("member " + k)


def ts_type(t, nested=False):
    k = t["k"]
    if k == "kw":
        return t["name"]
    if k == "lit":
        kind = t["kind"]
        if kind == "str":
            return "'" + t["text"] + "'"
        if kind == "tpl":
            return "`" + t["text"] + "`"
        if kind == "bigint":
            return t["text"] + "n"
        return t["text"]
    if k == "fn":
        r = f'(e: {ts_type(t["param"])}, ...args: any[]) => void' if "param" in t else "() => void"
        return f"({r})" if nested else r
    if k == "ctor":
        return "(new () => object)" if nested else "new () => object"
    if k == "arr":
        return ts_type(t["of"], True) + "[]"
    if k == "tuple":
        return "[" + ", ".join(ts_type(x) for x in t["items"]) + "]"
    if k == "typelit":
        return "{ " + "; ".join(ts_member(m) for m in t["members"]) + " }" if t["members"] else "{}"
    if k == "ref":
        return t["name"] + ("<" + ", ".join(ts_type(a) for a in t["args"]) + ">" if t["args"] else "")
    if k == "union":
        r = " | ".join(ts_type(x, x["k"] != "union") for x in t["types"])     # a union written inside a union needs no parentheses
        return f"({r})" if nested else r
    if k == "inter":
        r = " & ".join(ts_type(x, True) for x in t["types"])
        return f"({r})" if nested else r
    if k == "paren":
        return "(" + ts_type(t["t"]) + ")"
    if k == "idx":
        return ts_type(t["obj"], True) + "[" + ts_type(t["index"]) + "]"
    if k == "op":
        r = t["op"] + " " + ts_type(t["t"], True)
        return f"({r})" if nested else r
    if k == "query":
        return "typeof " + t["name"]
    if k == "cond":
        r = "string extends number ? string : number"
        return f"({r})" if nested else r
    if k == "qref":
        return t["ns"] + "." + t["name"]
    if k == "mapped":
        return "{ [K in 'a' | 'b']: string }"
    raise ValueError("type " + k)


def ts_decl(d, exported=False):
    pre = "export " if exported else ""
    if d["k"] == "tparam":
        return ""                      # written on the setup function, see render_ts
    if d["k"] == "class":
        return f'{pre}class {d["name"]} {{}}'
    if d["k"] == "enum":
        ms = ", ".join(f"M{i} = 'v{i}'" if k == "str" else f"M{i}" if k == "auto" else f"M{i} = {i}" for i, k in enumerate(d["kinds"]))
        return f'{pre}declare enum {d["name"]} {{ {ms} }}'
    if d["k"] == "import":
        return f'import type {{ {d["name"]} }} from "./types"'
    if d["k"] == "alias":
        return f'{pre}type {d["name"]} = {ts_type(d["type"])}'
    parents = list(d["extends"]) + [ts_type(t) for t in d.get("extendsT", [])]
    ext = (" extends " + ", ".join(parents)) if parents else ""
    return f'{pre}interface {d["name"]}{ext} {{ ' + "; ".join(ts_member(m) for m in d["members"]) + " }"


def render_ts(case):
    kind = case["tscase"]
    lines = ["import { defineComponent, type SetupContext } from 'vue'"]
    env, vals, exports = {}, {}, []
    if kind == "graph":
        def body(b, name):
            if b["k"] == "leaf":
                return "{ k" + name.lower() + ": string }"
            if b["k"] == "ref":
                return b["n"]
            return b["a"]["n"] + " & " + b["b"]["n"]
        for name in sorted(case["graph"]):
            lines.append(f'type {name} = {body(case["graph"][name], name)}')
        lines.append(f'export const C = defineComponent((props: {case["root"]}) => () => null)')
        return {"case": case["case"], "src": "\n".join(lines) + "\n", "lang": "tsx",
                "opts": case.get("optsJson") or opts_json(case["opts"]), "want": [], "env": {}, "vals": {},
                "exports": [{"name": "C", "kind": "value"}], "pragmas": [], "other_imports": {}}
    if kind == "call":
        O = "{ props: ['u'], name: 'N' }"
        shape, prov, decl = case["shape"], case["prov"], case["decl"]
        setup = "(props: { a?: string }, ctx: SetupContext<(e: 'ev') => void>) => () => null"
        second = {
            "none": None, "empty": "{}", "props": "{ props: ['u'] }", "props_quoted": "{ 'props': ['u'] }",
            "emits": "{ emits: ['x'] }", "emits_quoted": "{ \"emits\": ['x'] }", "name": "{ name: 'N' }", "name_quoted": "{ 'name': 'N' }",
            "all": "{ name: 'N', props: ['u'], emits: ['x'] }", "inheritAttrs": "{ inheritAttrs: false }",
            "name_shorthand": "{ name }", "props_shorthand": "{ props }", "emits_shorthand": "{ emits }", "all_shorthand": "{ emits, name, props }",
            "spread_only": "{ ...o }", "spread_then_emits": "{ ...o, emits: ['x'] }", "emits_then_spread": "{ emits: ['x'], ...o }",
            "spread_empty": "{ ...e }", "two_spreads_oe": "{ ...o, ...e }", "two_spreads_eo": "{ ...e, ...o }",
            "two_spreads_om": "{ ...o, ...mk() }", "ident": "o", "ident_empty": "e", "call": "mk()",
        }
        callee = "defineComponent"
        head = []
        if prov == "vue_named":
            head.append("import { defineComponent, type SetupContext } from 'vue'")
        elif prov == "vue_alias":
            head.append("import { defineComponent as dc, type SetupContext } from 'vue'")
            callee = "dc"
        elif prov == "vue_namespace":
            head.append("import * as Vue from 'vue'")
            head.append("import { type SetupContext } from 'vue'")
            callee = "Vue.defineComponent"
        elif prov == "local_function":
            head.append("import { type SetupContext } from 'vue'")
            head.append("function defineComponent(a: any, b?: any) { return $dc(a, b) }")
        elif prov == "shadowed_param":
            head.append("import { defineComponent, type SetupContext } from 'vue'")
        elif prov == "other_module":
            head.append("import { type SetupContext } from 'vue'")
            head.append("import { defineComponent } from './x'")
        elif prov == "alias_plus_other":
            head.append("import { defineComponent as dc, type SetupContext } from 'vue'")
            head.append("import { defineComponent } from './x'")
            head.append("export const unrelated = dc(() => () => null)")
        elif prov == "alias_plus_local":
            # Vue's defineComponent under an alias; the name itself is a local function, declared after its use (hoisted)
            head.append("import { defineComponent as dc, type SetupContext } from 'vue'")
            head.append("export const unrelated = dc(() => () => null)")
        else:
            raise ValueError("provenance " + prov)
        # another component defined inside the options of this one (not itself a variable's initialiser)
        second["nested"] = f"{{ components: {{ Row: {callee}((p: {{ b?: string }}) => () => null) }} }}"
        lines = head + [f"const o: any = {O}", "const e: any = {}", "const mk = (): any => ({ emits: ['x'] })",
                        "const name = 'N', props = ['u'], emits = ['x']"]
        if shape == "spread_args":
            lines.append(f"const args: [any, any] = [{setup}, {{ props: ['u'] }}]")
            call = f"{callee}(...args)"
        elif shape == "spread_args_one":
            lines.append(f"const args1: [any] = [{setup}]")
            call = f"{callee}(...args1)"
        elif shape == "nonfn_first":
            call = f"{callee}({{ setup() {{ return () => null }}, props: ['u'] }})"
        else:
            sec = second[shape]
            call = f"{callee}({setup}{', ' + sec if sec else ''})"
        if prov == "shadowed_param":
            # the callee is a parameter that shadows the vue import
            if decl == "export_default":
                decl = "export_const"
            wrap_open, wrap_close = "export function mkC(defineComponent: any) {", "}"
            body = {
                "const": f"  const C = {call}\n  return C", "let": f"  let C = {call}\n  return C", "var": f"  var C = {call}\n  return C",
                "export_const": f"  const C = {call}\n  return C", "assignment": f"  let C\n  C = {call}\n  return C",
                "bare": f"  return {call}",
            }[decl]
            lines += [wrap_open, body, wrap_close, "export const C0 = mkC($dc)"]
            exports = [{"name": "C0", "kind": "value"}]
        else:
            if decl in ("const", "let", "var"):
                lines += [f"{decl} C = {call}", "export const C0 = C"]
            elif decl == "export_const":
                lines += [f"export const C = {call}", "export const C0 = C"]
            elif decl == "export_default":
                lines += [f"export default {call}"]
            elif decl == "assignment":
                lines += ["let C", f"C = {call}", "export const C0 = C"]
            elif decl == "bare":
                lines += [f"export const C0 = [{call}][0]"]
            exports = [{"name": "default" if decl == "export_default" else "C0", "kind": "value"}]
            if prov == "alias_plus_local":
                lines.append("function defineComponent(a: any, b?: any) { return $dc(a, b) }")
        return {"case": case["case"], "src": "\n".join(lines) + "\n", "lang": "tsx",
                "opts": case.get("optsJson") or opts_json(case["opts"]), "want": [], "env": {}, "vals": {},
                "exports": exports, "pragmas": [], "other_imports": {"./x": ["defineComponent"]}}
    if kind == "defaults":
        cx = Ctx()
        def dkey(en):
            kf = en["keyform"]
            return en["key"] if kf == "ident" else "'" + en["key"] + "'" if kf == "str" else "['" + en["key"] + "']"
        parts = []
        for en in case["entries"]:
            f, ex = en["form"], expr(en["e"], cx)
            if f in ("lit", "expr"):
                parts.append(f"{dkey(en)}: {ex}")
            elif f == "shorthand":
                parts.append(en["key"])
            elif f == "getter":
                parts.append(f"get {dkey(en)}() {{ return {ex} }}")
            elif f == "method":
                parts.append(f"{dkey(en)}() {{ return {ex} }}")
            elif f == "async_method":
                parts.append(f"async {dkey(en)}() {{ return {ex} }}")
            elif f == "fn":
                parts.append(f"{dkey(en)}: () => {ex}")
            else:
                raise ValueError("default form " + f)
        form = case["form"]
        if form == "static":
            dflt = "{ " + ", ".join(parts) + " }"
        elif form == "ident":
            cx.env["dflts"] = {"k": "value", "rv": case["dyn"]}
            dflt = "dflts"
        elif form == "call":
            cx.env["mkdflts"] = {"k": "fn", "rv": case["dyn"]}
            dflt = "mkdflts()"
        elif form == "spread":
            cx.env["dflts"] = {"k": "value", "rv": case["dyn"]}
            dflt = "{ ...dflts, " + ", ".join(parts) + " }"
        elif form == "computed":
            cx.env["kname"] = {"k": "value", "rv": case["dyn"]}
            dflt = "{ [kname]: 'dk', " + ", ".join(parts) + " }"
        else:
            raise ValueError("defaults form " + form)
        ptype = "{ a?: string, b?: number, cb?: () => void, 'q-k'?: string, z?: boolean, u?: (() => void) | string, 'w'?: number, ['v']?: string }"
        lines += cx.prelude
        lines.append(f"export const C = defineComponent((props: {ptype} = {dflt}) => () => null)")
        return {"case": case["case"], "src": "\n".join(lines) + "\n", "lang": "tsx",
                "opts": case.get("optsJson") or opts_json(case["opts"]), "want": [], "env": cx.env, "vals": cx.vals,
                "exports": [{"name": "C", "kind": "value"}], "pragmas": [], "other_imports": {}}
    place = case.get("place", "before")
    exported = place.startswith("exported")
    decls = [x for x in (ts_decl(d, exported) for d in case.get("decls", [])) if x]
    fn_form = None
    if kind in ("props", "rtype"):
        pf = case.get("pform", "plain")
        T = ts_type(case["type"])
        params = {"plain": f"(props: {T})", "destructured": f"({{ zz }}: {T})", "empty_default": f"(props: {T} = {{}})",
                  "function": f"(props: {T})", "with_ctx": f"(props: {T}, {{ emit, slots }}: SetupContext)"}[pf]
        if pf == "function":
            fn_form = f"function {params} {{ return () => null }}"
    elif kind == "emits":
        cf = case.get("ctxform", "plain")
        pname = "{ emit }" if "destructured" in cf else "ctx"
        targs = ts_type(case["type"]) + (", { default: () => any }" if "slots2" in cf else "")
        dflt = " = $fallbackCtx" if cf == "defaulted" else ""
        params = f'(props: {{ a?: string }}, {pname}: SetupContext<{targs}>{dflt})' if case.get("annotated", True) \
            else f'(props: {{ a?: string }}, ctx)'
    else:
        raise ValueError("ts case " + kind)
    tps = [d["name"] for d in case.get("decls", []) if d["k"] == "tparam"]
    if tps and not fn_form:
        params = "<" + ", ".join(f"{n} extends string" for n in tps) + ",>" + params
    call = f"defineComponent({fn_form})" if fn_form else f"defineComponent({params} => () => null)"
    if place in ("before", "exported_before"):
        lines += decls + [f"export const C = {call}"]
        exports.append({"name": "C", "kind": "value"})
    elif place in ("after", "exported_after"):
        lines += [f"export const C = {call}"] + decls
        exports.append({"name": "C", "kind": "value"})
    elif place == "dual_scope":
        lines += decls + [f"export const C = {call}", "export function mk() {"]
        lines += ["  " + ts_decl(d) for d in case["shadow"]]
        lines += [f"  return {call}", "}"]
        exports.append({"name": "C", "kind": "value"})
        exports.append({"name": "mk", "kind": "thunk"})
    elif place == "split_scope":
        root = case["type"]["name"]
        ds = case.get("decls", [])
        lines += [ts_decl(d) for d in ds if d["name"] != root]
        lines.append("export function mk() {")
        lines += ["  " + ts_decl(d) for d in ds if d["name"] == root]
        lines.append(f"  return {call}")
        lines.append("}")
        exports.append({"name": "mk", "kind": "thunk"})
    elif place in ("scoped", "scoped_shadowing"):
        if place == "scoped_shadowing":
            for d in case.get("decls", []):
                if d["k"] == "alias":
                    lines.append(f'type {d["name"]} = {{ zz: string }}')
                else:
                    lines.append(f'interface {d["name"]} {{ zz: string }}')
        lines.append("export function mk() {")
        lines += ["  " + x for x in decls]
        lines.append(f"  return {call}")
        lines.append("}")
        exports.append({"name": "mk", "kind": "thunk"})
    else:
        raise ValueError("place " + place)
    return {"case": case["case"], "src": "\n".join(lines) + "\n", "lang": "tsx",
            "opts": case.get("optsJson") or opts_json(case["opts"]), "want": [], "env": env, "vals": vals,
            "exports": exports, "pragmas": [], "other_imports": {}}


def opts_json(o):
    d = {
        "transformOn": o["transformOn"], "optimize": o["optimize"], "mergeProps": o["mergeProps"],
        "enableObjectSlots": o["enableObjectSlots"], "resolveType": o["resolveType"],
        "customElementPatterns": list(o.get("patterns", [])),
    }
    if o.get("pragma"):
        d["pragma"] = o["pragma"]
    return json.dumps(d)


def render_case(case):
    if "_src" in case:       # a corpus file: source text as it is on disk
        return {"case": case["case"], "src": case["_src"], "lang": case.get("lang", "jsx"),
                "opts": case.get("optsJson") or opts_json(case["opts"]), "want": [], "env": {}, "vals": {},
                "exports": [], "pragmas": [], "other_imports": {}}
    if "tscase" in case:
        return render_ts(case)
    cx = Ctx()
    body = []
    exports = []
    lang = case.get("lang", "jsx")
    if "module" in case and "sites" in case:
        body += render_vmodule(case, cx)
        exports.append({"name": "$all", "kind": "value"})
        cx.env["$out"] = {"k": "value", "rv": {"t": "obj", "es": []}}
    joinnext = False
    for it in case.get("items", []):
        k = it["k"]
        if k == "export_jsx":
            src, kind = context_wrap(it.get("ctx", "module"), it["name"], elem(it["elem"], cx))
            body.append(src)
            exports.append({"name": it["name"], "kind": kind})
        elif k == "raw":
            for n, spec in (it.get("env") or {}).items():
                cx.env[n] = spec
            for n, rv in (it.get("vals") or {}).items():
                cx.vals[n] = rv
            body.append(it["text"])
            for ex in it.get("exports", []):
                exports.append(ex)
        elif k == "comment":
            body.append(it["text"])
        elif k == "sameline":
            # a comment on the line of the previous statement, and the next statement (if any) on that line too
            body[-1] = body[-1] + " " + it["text"] + " "
            joinnext = True
            continue
        else:
            raise ValueError("item kind " + k)
        if joinnext and len(body) >= 2:
            nxt = body.pop()
            body[-1] = body[-1] + nxt
        joinnext = False
    lines = list(case.get("head", []))
    lines += cx.imports + cx.prelude + body
    if cx.targets:
        seen = []
        for n, e in cx.targets:
            if (n, e) not in seen:
                seen.append((n, e))
        lines.append("export const $targets = () => [" + ", ".join(f"[{json.dumps(n)}, {e}]" for n, e in seen) + "];")
    o = case["opts"]
    pragmas = list(case.get("pragmas", []))
    if o.get("pragma"):
        pragmas.append(o["pragma"])
    return {
        "case": case["case"], "src": "\n".join(lines) + "\n", "lang": lang,
        "opts": case.get("optsJson") or opts_json(o), "want": case.get("want", []),
        "env": cx.env, "vals": cx.vals, "exports": exports, "pragmas": pragmas,
        "other_imports": case.get("other_imports", {}),
    }


if __name__ == "__main__":
    import sys
    for line in sys.stdin:
        if line.strip():
            print(json.dumps(render_case(json.loads(line))))
