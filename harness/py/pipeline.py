"""Shared plumbing for ./check: build the driver from /repo's working tree, run TLC (model
checking / case emission / judging), run the real transform and the runtime observer, join the
records.  Nothing here decides a property: verdicts come from TLC evaluating the specification."""
import json
import os
import re
import select
import shutil
import subprocess
import sys
import threading
import time

VERIF = os.path.dirname(os.path.dirname(os.path.dirname(os.path.abspath(__file__))))
SPEC = os.path.join(VERIF, "spec")
DRIVER_DIR = os.path.join(VERIF, "harness", "driver")
RUNTIME = os.path.join(VERIF, "harness", "runtime", "run.mjs")
TLA_CP = "/opt/veriftools/tla/tla2tools.jar:/opt/veriftools/tla/CommunityModules-deps.jar"
NPROC = int(os.environ.get("VERIF_NPROC", "8"))


class ToolError(Exception):
    pass


def log(*a):
    print("[check]", *a, file=sys.stderr, flush=True)


def find_node():
    n = shutil.which("node")
    if n:
        return n
    import glob
    c = sorted(glob.glob(os.path.expanduser("~/.nvm/versions/node/*/bin/node")))
    if c:
        return c[-1]
    raise ToolError("node not found")


def build_driver():
    """(re)build the conformance driver against /repo's current working tree, hooks on"""
    t0 = time.time()
    env = dict(os.environ, CARGO_NET_OFFLINE="true")
    r = subprocess.run(["cargo", "build", "--offline", "--quiet"], cwd=DRIVER_DIR, env=env,
                       stdout=subprocess.PIPE, stderr=subprocess.STDOUT, text=True)
    if r.returncode != 0:
        raise ToolError("driver build failed:\n" + r.stdout[-4000:])
    log(f"driver built in {time.time() - t0:.1f}s")
    return os.path.join(DRIVER_DIR, "target", "debug", "vjsx-driver")


# ------------------------------------------------------------------------------------------- TLC

def run_tlc(module, cfg, workdir, env=None, workers=8, heap="6g", timeout=3600, extra=(), deadlock=False,
            subdir="mc"):
    """run TLC on spec/<subdir>/<module>.tla with <cfg>; returns dict(stdout, states, distinct, printed, ok)"""
    os.makedirs(workdir, exist_ok=True)
    meta = os.path.join(workdir, "tlc-" + module)
    shutil.rmtree(meta, ignore_errors=True)
    cmd = ["java", "-XX:+UseParallelGC", f"-Xmx{heap}", "-Xss512m", "-Dfile.encoding=UTF-8", f"-DTLA-Library={SPEC}",
           "-cp", TLA_CP, "tlc2.TLC", "-workers", str(workers), "-metadir", meta, "-cleanup",
           "-noGenerateSpecTE", "-config", cfg] + list(extra)
    if not deadlock:
        cmd.append("-deadlock")
    cmd.append(module + ".tla")
    e = dict(os.environ)
    e.pop("JAVA_TOOL_OPTIONS", None)
    if env:
        e.update(env)
    t0 = time.time()
    try:
        r = subprocess.run(cmd, cwd=os.path.join(SPEC, subdir), env=e, stdout=subprocess.PIPE,
                           stderr=subprocess.STDOUT, text=True, timeout=timeout)
    except subprocess.TimeoutExpired:
        raise ToolError(f"TLC timed out on {module}")
    out = r.stdout
    with open(os.path.join(workdir, module + ".tlc.log"), "w") as f:
        f.write(out)
    shutil.rmtree(meta, ignore_errors=True)
    printed = []
    for line in out.splitlines():
        if line.startswith('"{') and line.endswith('}"'):
            try:
                printed.append(json.loads(json.loads(line)))
            except Exception:
                pass
    actions = {}
    for am in re.finditer(r"^<(\w+) line \d+, col \d+ to line \d+, col \d+ of module (\w+)>: (\d+):(\d+)", out, re.M):
        actions[am.group(1)] = actions.get(am.group(1), 0) + int(am.group(4))
    m = re.search(r"(\d+) states generated, (\d+) distinct states found", out)
    states = int(m.group(1)) if m else 0
    distinct = int(m.group(2)) if m else 0
    res = dict(stdout=out, generated=states, distinct=distinct, printed=printed, rc=r.returncode,
               wall=time.time() - t0, actions=actions)
    return res


def run_tlapm(module, workdir, timeout=900):
    """check spec/proofs/<module>.tla with the TLA+ proof system, ignoring cached fingerprints; every obligation
    must be proved (anything else is a tool error: the theorems are about the model, not about /repo)"""
    os.makedirs(workdir, exist_ok=True)
    exe = shutil.which("tlapm")
    if not exe:
        raise ToolError("tlapm not found")
    cache = os.path.join(workdir, "tlaps-" + module)
    shutil.rmtree(cache, ignore_errors=True)
    os.makedirs(cache)
    t0 = time.time()
    try:
        r = subprocess.run([exe, "--cleanfp", "--threads", "8", "--cache-dir", cache, "-I", SPEC, module + ".tla"],
                           cwd=os.path.join(SPEC, "proofs"), stdout=subprocess.PIPE, stderr=subprocess.STDOUT, text=True,
                           timeout=timeout)
    except subprocess.TimeoutExpired:
        raise ToolError(f"tlapm timed out on {module}")
    shutil.rmtree(cache, ignore_errors=True)
    with open(os.path.join(workdir, module + ".tlapm.log"), "w") as f:
        f.write(r.stdout)
    m = re.search(r"All (\d+) obligations? proved", r.stdout)
    if r.returncode != 0 or not m:
        raise ToolError(f"tlapm: {module}: not all obligations proved\n" + r.stdout[-2000:])
    return dict(obligations=int(m.group(1)), wall=time.time() - t0)


def tlc_failed(res):
    """a TLC run that did not complete normally (parse error, evaluation error, …)"""
    out = res["stdout"]
    if "Model checking completed" in out or "Finished in" in out and res["rc"] == 0:
        return None
    m = re.search(r"Error: .*", out)
    return (m.group(0) if m else "TLC exit code %d" % res["rc"]) + "\n" + out[-3000:]


# ---------------------------------------------------------------------------------------- driver

class TimeoutBudget:
    """a transform that hangs on many inputs must not make the check itself run for hours: after `limit`
    timeouts the remaining cases are recorded as `skipped` (never a verdict) — the timeouts already seen are
    reported"""
    def __init__(self, limit):
        self.limit, self.count, self.lock = limit, 0, threading.Lock()

    def hit(self):
        with self.lock:
            self.count += 1

    def exhausted(self):
        return self.count >= self.limit


class DriverShard(threading.Thread):
    def __init__(self, binary, cases, results, case_timeout=20.0, stack_mb=8, budget=None):
        super().__init__()
        self.binary, self.cases, self.results = binary, cases, results
        self.case_timeout = case_timeout
        self.stack_mb = stack_mb
        self.budget = budget
        self.err = None

    def run(self):
        try:
            todo = list(self.cases)
            while todo:
                if self.budget is not None and self.budget.exhausted():
                    for c in todo:
                        self.results[c["case"]] = {"case": c["case"], "term": {"k": "skipped", "phase": "timeout-budget"}}
                    break
                todo = self.run_some(todo)
        except Exception as e:  # tool error
            self.err = e

    def run_some(self, todo):
        env = dict(os.environ, VJSX_STACK_MB=str(self.stack_mb))
        p = subprocess.Popen([self.binary], stdin=subprocess.PIPE, stdout=subprocess.PIPE,
                             stderr=subprocess.DEVNULL, env=env)
        data = "".join(json.dumps({k: c[k] for k in ("case", "src", "lang", "opts", "want")}) + "\n" for c in todo)

        def feed():
            try:
                p.stdin.write(data.encode())
                p.stdin.close()
            except Exception:
                pass
        threading.Thread(target=feed, daemon=True).start()
        idx = {c["case"]: i for i, c in enumerate(todo)}
        cur, phase = None, None
        done_upto = -1
        buf = b""
        fd = p.stdout.fileno()
        while True:
            r, _, _ = select.select([fd], [], [], self.case_timeout)
            if not r:
                # no progress: the case in flight loops (or is pathologically slow)
                p.kill()
                p.wait()
                if cur is None:
                    raise ToolError("driver made no progress before the first case")
                self.results[cur] = {"case": cur, "term": {"k": "timeout", "phase": phase or "?"}}
                if self.budget is not None:
                    self.budget.hit()
                return todo[idx[cur] + 1:]
            chunk = os.read(fd, 1 << 16)
            if not chunk:
                break
            buf += chunk
            while b"\n" in buf:
                line, buf = buf.split(b"\n", 1)
                line = line.decode("utf-8", "replace")
                if line.startswith("B "):
                    cur, phase = line[2:], None
                elif line.startswith("P "):
                    phase = line[2:]
                elif line.startswith("R "):
                    rec = json.loads(line[2:])
                    self.results[rec["case"]] = rec
                    done_upto = idx[rec["case"]]
                    cur = None
                elif line.startswith("E "):
                    raise ToolError("driver: " + line)
        rc = p.wait()
        if cur is not None:
            # died mid-case: stack overflow (SIGABRT/SIGSEGV) or similar — data, not a tool error
            self.results[cur] = {"case": cur, "term": {"k": "abort", "phase": phase or "?", "rc": rc}}
            return todo[idx[cur] + 1:]
        if done_upto + 1 < len(todo):
            if rc != 0:
                raise ToolError(f"driver exited rc={rc} between cases")
            return todo[done_upto + 1:]
        return []


def run_driver(binary, rendered, nproc=NPROC, case_timeout=20.0, stack_mb=8, max_timeouts=6, together=(), solo=()):
    """`together`: case ids that must share ONE driver process, in the given order (state leaking from one
    transform into the next shows there); `solo`: case ids that each get a process of their own"""
    results = {}
    budget = TimeoutBudget(max_timeouts)
    special = set(together) | set(solo)
    by_id = {c["case"]: c for c in rendered}
    rest = [c for c in rendered if c["case"] not in special]
    shards = [rest[i::nproc] for i in range(nproc)]
    if together:
        shards.append([by_id[i] for i in together if i in by_id])
    shards += [[by_id[i]] for i in solo if i in by_id]
    ts = [DriverShard(binary, s, results, case_timeout, stack_mb, budget) for s in shards if s]
    for t in ts:
        t.start()
    for t in ts:
        t.join()
    for t in ts:
        if t.err:
            raise ToolError(f"driver shard failed: {t.err}")
    missing = [c["case"] for c in rendered if c["case"] not in results]
    if missing:
        raise ToolError(f"driver produced no record for {len(missing)} cases, e.g. {missing[:3]}")
    return results


# ------------------------------------------------------------------------------------------ node

def run_node(specs, nproc=NPROC, timeout=1800):
    node = find_node()
    results = {}
    # module contexts are not collected quickly by V8: no node process gets more than `per` modules
    per = 4000
    nshards = max(nproc, (len(specs) + per - 1) // per)
    shards = [specs[i::nshards] for i in range(nshards)]
    errs = []

    def work(shard):
        try:
            data = "".join(json.dumps(s) + "\n" for s in shard)
            r = subprocess.run([node, "--experimental-vm-modules", "--no-warnings", "--stack-size=4000", RUNTIME],
                               input=data.encode(), stdout=subprocess.PIPE, stderr=subprocess.PIPE, timeout=timeout)
            if r.returncode != 0:
                errs.append(r.stderr.decode()[-2000:])
                return
            for line in r.stdout.decode().splitlines():
                if line.strip():
                    rec = json.loads(line)
                    results[rec["case"]] = rec
        except Exception as e:
            errs.append(str(e))
    import concurrent.futures
    with concurrent.futures.ThreadPoolExecutor(max_workers=nproc) as ex:
        list(ex.map(work, [s for s in shards if s]))
    if errs:
        raise ToolError("runtime observer failed: " + errs[0])
    return results


def add_s(v):
    """canonical strings carry `s` (their ASCII text, or "?") beside the code points"""
    if isinstance(v, dict):
        if v.get("t") == "str" and "cp" in v and "s" not in v:
            cp = v["cp"]
            v["s"] = "".join(chr(c) for c in cp) if all(0x20 <= c < 0x7f and c not in (0x22, 0x5c) for c in cp) else "?"
        for x in v.values():
            add_s(x)
    elif isinstance(v, list):
        for x in v:
            add_s(x)
    return v


def ascii_only(s):
    return "".join(ch if 0x20 <= ord(ch) < 0x7f and ch not in '"\\' else "?" for ch in s)


def sanitize(v):
    """make a record safe for TLC's JSON reader: no null, no non-ASCII strings, no empty objects"""
    if v is None:
        return {"t": "jsnull"}
    if isinstance(v, str):
        return ascii_only(v)
    if isinstance(v, float):
        return int(v) if v == int(v) and abs(v) < 2 ** 31 else {"t": "numx", "s": str(v)}
    if isinstance(v, dict):
        if not v:
            return {"t": "emptyobj"}
        return {ascii_only(k): sanitize(x) for k, x in v.items()}
    if isinstance(v, list):
        return [sanitize(x) for x in v]
    return v
