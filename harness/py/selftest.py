"""./check selftest — validate the machinery itself (DESIGN §9):

 1. binding demonstration: recorded observations of the real code are corrupted in one place
    (a code point of a text vnode, two swapped runtime events, a duplicated evaluation, a slot leaf moved
    to creation time, a dropped hook event, an extra free variable, a dynamic-prop name that is not a prop)
    and the TLC judges must reject exactly the corrupted cases (and still accept the untouched ones);
 2. the JavaScript mock of the Vue runtime functions (harness/runtime/mockvue.mjs) is run on generated
    values and TLC compares every result with spec/Values.tla (Judge_Values), so the oracle and the
    environment cannot drift apart silently;
 3. the deviation configs of the state-machine models must produce their counterexamples
    (MC_C06.dev_drain -> ScopeOK, MC_C06.dev_stale -> CaptureOnlyOwn, MC_C06.dev_arrowparam -> ScopeOK, MC_C08T.dev_unbounded -> NoOverflow)
    and the liveness config must verify Termination.
exit 0 iff everything behaves as stated; exit 2 otherwise (a self-test failure is a tool error, never a verdict)."""
import copy
import json
import os
import random
import subprocess
import sys

import pipeline as P

HERE = P.VERIF
sys.path.insert(0, os.path.join(HERE, "harness", "py"))


def load_check():
    import importlib.machinery
    import importlib.util
    loader = importlib.machinery.SourceFileLoader("check_mod", os.path.join(HERE, "check"))
    spec = importlib.util.spec_from_loader("check_mod", loader)
    mod = importlib.util.module_from_spec(spec)
    loader.exec_module(mod)
    return mod


def judge_verdicts(check, pid, obs, work):
    verdicts, _ = check.judge(pid, obs, work, "quick")
    return check.aggregate(verdicts)


def corrupt_and_judge(check, pid, n, corrupt, work, binary, seed, fails):
    """run the real pipeline on a sample of the quick cases of `pid`, corrupt one case with `corrupt(ob)`,
    and require: baseline accepted -> corrupted rejected, every other verdict unchanged"""
    cases, _ = check.gen_cases(pid, "quick", seed, work)
    rnd = random.Random(seed)
    cases = [cases[i] for i in sorted(rnd.sample(range(len(cases)), min(n, len(cases))))]
    obs, _ = check.observe(pid, cases, work, binary)
    base = judge_verdicts(check, pid, obs, work)
    done = 0
    for name, fn in corrupt:
        target = None
        for i, ob in enumerate(obs):
            if base[ob["case"]]["verdict"] != "accept":
                continue
            c = fn(copy.deepcopy(ob))
            if c is not None:
                target = (i, c)
                break
        if target is None:
            fails.append(f"{pid}/{name}: no case to corrupt")
            continue
        i, c = target
        mutated = obs[:i] + [c] + obs[i + 1:]
        got = judge_verdicts(check, pid, mutated, work)
        cid = c["case"]
        drift = got[cid].get("drift", 0)
        if name.startswith("drift:"):
            ok = bool(drift)
        else:
            ok = got[cid]["verdict"] == "reject"
        others_same = all(got[k]["verdict"] == base[k]["verdict"] for k in base if k != cid)
        P.log(f"selftest {pid}/{name}: corrupted {cid} -> {got[cid]['verdict']} why={got[cid].get('why')!r} drift={drift}"
              f" others_unchanged={others_same}")
        if not ok:
            fails.append(f"{pid}/{name}: corrupted case {cid} was not rejected")
        if not others_same:
            fails.append(f"{pid}/{name}: verdicts of untouched cases changed")
        done += 1
    return done


# ---- corruptions -----------------------------------------------------------------------------------

def c02_text(ob):
    v = ob["rt"]["exports"][0][1] if ob["rt"]["exports"] else None
    if not v or v.get("t") != "vnode" or v["children"].get("t") != "arr":
        return None
    for x in v["children"]["xs"]:
        if x.get("t") == "text" and x["cp"]:
            x["cp"][-1] = x["cp"][-1] + 1
            return ob
    return None


def leaf_events(ob):
    return [i for i, e in enumerate(ob["rt"]["events"]) if e["ev"] in ("read", "call")]


def c11_swap(ob):
    ev = ob["rt"]["events"]
    idx = [i for i in leaf_events(ob) if ev[i]["ev"] == "call"]
    depth = 0
    creation = []
    for i, e in enumerate(ev):
        if e["ev"] == "slot_begin":
            depth += 1
        elif e["ev"] == "slot_end":
            depth -= 1
        elif i in idx and depth == 0 and e["id"].startswith(("fa", "gc")):
            creation.append(i)
    if len(creation) < 2:
        return None
    a, b = creation[0], creation[1]
    ev[a], ev[b] = ev[b], ev[a]
    return ob


def c11_duplicate(ob):
    ev = ob["rt"]["events"]
    for i in leaf_events(ob):
        if ev[i]["ev"] == "call" and ev[i]["id"].startswith(("fa", "gc")):
            ev.insert(i + 1, dict(ev[i]))
            return ob
    return None


def c11_drop(ob):
    ev = ob["rt"]["events"]
    for i in leaf_events(ob):
        if ev[i]["ev"] == "call" and ev[i]["id"].startswith(("fa", "gc")):
            del ev[i]
            return ob
    return None


def c11_eager(ob):
    """a leaf evaluated inside a slot is moved to vnode-creation time"""
    ev = ob["rt"]["events"]
    depth = 0
    for i, e in enumerate(ev):
        if e["ev"] == "slot_begin":
            depth += 1
        elif e["ev"] == "slot_end":
            depth -= 1
        elif e["ev"] == "call" and depth > 0 and e["id"].startswith("gc"):
            x = ev.pop(i)
            ev.insert(0, x)
            return ob
    return None


def c06_free(ob):
    d = ob["drv"]
    if d["term"]["k"] != "return" or "free_out" not in d:
        return None
    d["free_out"] = list(d["free_out"]) + ["_slot"]
    return ob


def c06_drop_hook(ob):
    d = ob["drv"]
    hs = d.get("hooks", [])
    for i, h in enumerate(hs):
        if h["ev"] in ("gen_slot", "exit_stmts", "iife_take"):
            del hs[i]
            return ob
    return None


def c06_partition(ob):
    d = ob["drv"]
    if d["term"]["k"] != "return" or len(d.get("ids_out", [])) < 2:
        return None
    d["ids_out"] = list(d["ids_out"])
    d["ids_out"][-1] = max(d["ids_out"]) + 1
    return ob


def c13_dyn(ob):
    v = ob["rt"]["exports"][0][1] if ob["rt"]["exports"] else None
    if not v or v.get("t") != "vnode" or v["dyn"].get("t") != "arr":
        return None
    v["dyn"]["xs"].append({"t": "str", "cp": [122, 122], "s": "zz"})
    return ob


def c13_flag(ob):
    v = ob["rt"]["exports"][0][1] if ob["rt"]["exports"] else None
    if not v or v.get("t") != "vnode" or v["flag"].get("t") != "num" or v["flag"]["n"] != 16:
        return None
    v["flag"]["n"] = 8          # a spread / computed key without the full-props bit
    return ob


def c13_hook(ob):
    for h in ob["drv"].get("hooks", []):
        if h["ev"] == "attrs_done":
            h["flags"] = h["flags"] + 1
            return ob
    return None


# ---- JS mock vs Values.tla -------------------------------------------------------------------------

def gen_value(rnd, depth=0):
    S = lambda s: {"t": "str", "cp": [ord(c) for c in s]}
    kinds = ["str", "num", "bool", "null", "undef", "fn"] + (["arr", "obj"] if depth < 2 else [])
    k = rnd.choice(kinds)
    if k == "str":
        return S(rnd.choice(["", "a", "a b", " c ", "d  e", " x"]))
    if k == "num":
        return {"t": "num", "n": rnd.choice([0, 1, 7])}
    if k == "bool":
        return {"t": "bool", "b": rnd.choice([True, False])}
    if k == "null":
        return {"t": "null"}
    if k == "undef":
        return {"t": "undef"}
    if k == "fn":
        return {"t": "fn", "id": rnd.choice(["h1", "h2", "h3"])}
    if k == "arr":
        return {"t": "arr", "xs": [gen_value(rnd, depth + 1) for _ in range(rnd.randint(0, 3))]}
    keys = rnd.sample(["a", "b", "c", "d"], rnd.randint(0, 3))
    return {"t": "obj", "es": [[key, gen_value(rnd, depth + 1)] for key in keys]}


def gen_style(rnd):
    keys = rnd.sample(["color", "top", "left"], rnd.randint(0, 3))
    return {"t": "obj", "es": [[k, {"t": "num", "n": rnd.randint(0, 3)}] for k in keys]}


def gen_props(rnd):
    es = []
    for k in rnd.sample(["class", "style", "onClick", "onFoo", "id", "foo", "onUpdate:modelValue"], rnd.randint(0, 5)):
        if k == "class":
            v = gen_value(rnd)
        elif k == "style":
            v = rnd.choice([gen_style(rnd), {"t": "arr", "xs": [gen_style(rnd), gen_style(rnd)]}, {"t": "undef"}])
        elif k.startswith("on"):
            # (arrays of listeners are not generated: mergeProps compares them by identity, which the value algebra does not have)
            v = rnd.choice([{"t": "fn", "id": rnd.choice(["h1", "h2", "h3"])}, {"t": "null"}, {"t": "undef"}])
        else:
            v = gen_value(rnd, 2)
        es.append([k, v])
    return {"t": "obj", "es": es}


VALUES_JS = r"""
import * as V from '%s'
import readline from 'node:readline'
const cps = (s) => Array.from(s).map((c) => c.codePointAt(0))
function mk(v) {
  switch (v.t) {
    case 'str': return String.fromCodePoint(...v.cp)
    case 'num': return v.n
    case 'bool': return v.b
    case 'null': return null
    case 'undef': return undefined
    case 'fn': { const k = 'fn:' + v.id; if (!mk.c.has(k)) { const f = () => {}; f.__fn = v.id; mk.c.set(k, f) } return mk.c.get(k) }
    case 'arr': return v.xs.map(mk)
    case 'obj': { const o = {}; for (const [k, x] of v.es) o[k] = mk(x); return o }
  }
}
mk.c = new Map()
function canon(v) {
  if (v === undefined) return { t: 'undef' }
  if (v === null) return { t: 'null' }
  if (typeof v === 'string') return { t: 'str', cp: cps(v) }
  if (typeof v === 'number') return { t: 'num', n: v }
  if (typeof v === 'boolean') return { t: 'bool', b: v }
  if (typeof v === 'function') return { t: 'fn', id: v.__fn }
  if (Array.isArray(v)) return { t: 'arr', xs: v.map(canon) }
  return { t: 'obj', es: Object.keys(v).map((k) => [k, canon(v[k])]) }
}
const rl = readline.createInterface({ input: process.stdin, crlfDelay: Infinity })
for await (const line of rl) {
  if (!line.trim()) continue
  const r = JSON.parse(line)
  let out
  if (r.fn === 'normalizeClass') out = canon(V.normalizeClass(mk(r.args[0])))
  else if (r.fn === 'normalizeStyle') out = canon(V.normalizeStyle(mk(r.args[0])))
  else if (r.fn === 'mergeProps') out = canon(V.mergeProps(...r.args.map(mk)))
  else if (r.fn === 'transformOn') out = canon(V.transformOn(mk(r.args[0])))
  else if (r.fn === 'isOn') out = canon(V.isOn(String.fromCodePoint(...r.args[0].cp)))
  process.stdout.write(JSON.stringify({ ...r, result: out }) + '\n')
}
"""


def values_crosscheck(work, seed, fails):
    rnd = random.Random(seed)
    recs = []
    for i in range(1500):
        kind = rnd.choice(["normalizeClass", "normalizeStyle", "mergeProps", "mergeProps", "transformOn"])
        if kind == "normalizeClass":
            args = [gen_value(rnd)]
            if not no_fn(args[0]):
                continue
        elif kind == "normalizeStyle":
            args = [rnd.choice([gen_style(rnd), {"t": "arr", "xs": [gen_style(rnd) for _ in range(rnd.randint(0, 3))]}])]
        elif kind == "mergeProps":
            args = [rnd.choice([gen_props(rnd), {"t": "null"}, {"t": "undef"}]) for _ in range(rnd.randint(1, 3))]
            if not all(class_ok(a) for a in args):
                continue
        else:
            args = [{"t": "obj", "es": [[k, {"t": "fn", "id": "h1"}] for k in rnd.sample(["click", "foo", "bar"], rnd.randint(0, 3))]}]
        recs.append({"case": f"V-{i}", "fn": kind, "args": args})
    js = os.path.join(work, "values.mjs")
    with open(js, "w") as f:
        f.write(VALUES_JS % os.path.join(HERE, "harness", "runtime", "mockvue.mjs"))
    r = subprocess.run([P.find_node(), js], input="".join(json.dumps(x) + "\n" for x in recs).encode(),
                       stdout=subprocess.PIPE, stderr=subprocess.PIPE)
    if r.returncode != 0:
        fails.append("values: node failed: " + r.stderr.decode()[-500:])
        return 0
    out = [json.loads(l) for l in r.stdout.decode().splitlines() if l.strip()]
    path = os.path.join(work, "values.ndjson")
    with open(path, "w") as f:
        for o in out:
            f.write(json.dumps(P.sanitize(o)) + "\n")
    res = P.run_tlc("Judge_Values", "Judge.cfg", work, env={"OBS": path}, subdir="trace")
    err = P.tlc_failed(res)
    if err:
        fails.append("values: TLC failed: " + err[:1500])
        return 0
    vs = [v for v in res["printed"] if v.get("marker") == "VERDICT"]
    bad = [v for v in vs if v["verdict"] != "accept"]
    P.log(f"selftest values: {len(vs)} JS results compared with Values.tla, {len(bad)} differ")
    if len(vs) != len(out):
        fails.append(f"values: {len(vs)} verdicts for {len(out)} records")
    for v in bad[:5]:
        fails.append(f"values: mock and Values.tla disagree on {v['case']}: {v['why']}")
    return len(vs)


def no_fn(v):
    if v["t"] == "fn":
        return False
    if v["t"] == "arr":
        return all(no_fn(x) for x in v["xs"])
    if v["t"] == "obj":
        return all(no_fn(x) for _, x in v["es"])
    return True


def class_ok(a):
    if a["t"] != "obj":
        return True
    for k, v in a["es"]:
        if k == "class" and not no_fn(v):
            return False
    return True


def model_configs(work, fails):
    n = 0
    for module, cfg, want in (("MC_C06", "MC_C06.dev_drain.cfg", "Invariant ScopeOK is violated"),
                              ("MC_C06", "MC_C06.dev_stale.cfg", "Invariant CaptureOnlyOwn is violated"),
                              ("MC_C06", "MC_C06.dev_arrowparam.cfg", "Invariant ScopeOK is violated"),
                              ("MC_C08T", "MC_C08T.dev_unbounded.cfg", "Invariant NoOverflow is violated"),
                              ("MC_C08T", "MC_C08T.live.cfg", "Model checking completed. No error has been found")):
        res = P.run_tlc(module, cfg, work, heap="8g", timeout=900)
        ok = want in res["stdout"]
        P.log(f"selftest model {cfg}: {'as expected' if ok else 'UNEXPECTED'} ({want})")
        if not ok:
            fails.append(f"model {cfg}: expected '{want}'")
        n += 1
    return n


def main():
    seed = int(os.environ.get("VERIF_SEED", "1"))
    work = os.path.join(HERE, "work", "selftest")
    os.makedirs(work, exist_ok=True)
    fails = []
    try:
        check = load_check()
        binary = P.build_driver()
        n = 0
        n += corrupt_and_judge(check, "C02", 300, [("text-code-point", c02_text)], work, binary, seed, fails)
        n += corrupt_and_judge(check, "C11", 400, [("swap-two-events", c11_swap), ("duplicate-evaluation", c11_duplicate),
                                                   ("drop-evaluation", c11_drop), ("slot-leaf-at-creation", c11_eager)],
                               work, binary, seed, fails)
        n += corrupt_and_judge(check, "C06", 400, [("extra-free-variable", c06_free), ("binding-partition", c06_partition),
                                                   ("drift:drop-hook-event", c06_drop_hook)], work, binary, seed, fails)
        n += corrupt_and_judge(check, "C13", 600, [("dyn-name-not-a-prop", c13_dyn), ("full-props-bit-cleared", c13_flag),
                                                   ("drift:attrs_done-flags", c13_hook)], work, binary, seed, fails)
        n += values_crosscheck(work, seed, fails)
        n += model_configs(work, fails)
    except P.ToolError as e:
        print(f"SELFTEST tool error: {e}", file=sys.stderr)
        return 2
    for f in fails:
        print("SELFTEST-FAIL:", f)
    print(f"selftest: {n} demonstrations, {len(fails)} failures")
    return 2 if fails else 0
