"""Per-property wiring: which TLC model emits the cases, which TLC judge decides them, what the
driver is asked to observe.  Bounds live in the .cfg files next to the specs."""

COMMON_ASSUMPTIONS = [
    "bounded: 'for all inputs' is decided for all inputs up to the stated size (exhaustive within the cfg bounds)",
    "trusted: TLC + CommunityModules; swc parser/resolver/hygiene/fixer/codegen; node's JS semantics",
    "the Vue runtime is a mock written from Vue 3's documented behaviour (spec/Values.tla is the oracle, "
    "harness/runtime/mockvue.mjs the environment; ./check selftest cross-checks them)",
    "options reach the visitor through the same serde_json::from_str::<Options> call as plugin/src/lib.rs; "
    "the WASM entry point itself cannot be executed here",
]

PROPS = {
    "C02": dict(
        mc=[dict(module="MC_C02")], judge="Judge_C02", want=["js"],
        rule="TLC enumerates every JSX-text string over the symbol alphabet up to the length bound in every "
             "position, and every child sequence over the child-kind alphabet up to the length bound under every "
             "host; a case is non-trivial when the element has at least one written child",
        exhaustive=dict(quick=True, thorough=True),
        assumptions=["JSX text symbols are those of Text!SymCp; entities are written &amp; &nbsp; &#32; &lt;"],
    ),
}
