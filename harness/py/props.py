"""Per-property wiring: which TLC model emits the cases, which TLC judge decides them, what the
driver is asked to observe.  Bounds live in the .cfg files next to the specs."""

COMMON_ASSUMPTIONS = [
    "bounded: 'for all inputs' is decided for all inputs up to the stated size (exhaustive within the cfg bounds)",
    "trusted: TLC + CommunityModules; swc parser/resolver/hygiene/fixer/codegen; node's JS semantics",
    "the Vue runtime is a mock written from Vue 3's documented behaviour (spec/Values.tla is the oracle, "
    "harness/runtime/mockvue.mjs the environment; ./check selftest cross-checks them)",
    "options reach the visitor through the same serde_json::from_str::<Options> call as plugin/src/lib.rs; "
    "the WASM entry point itself cannot be executed here",
]

NOT_APPLICABLE = {}

import random


def sample(cases, n, seed):
    if len(cases) <= n:
        return cases
    rnd = random.Random(seed)
    idx = sorted(rnd.sample(range(len(cases)), n))
    return [cases[i] for i in idx]


def stratum(c):
    """coarse shape of a pooled case: rare shapes (4 dynamic default forms among 655 defaults cases, ...) must not be
    lost to sampling"""
    t = c.get("tscase")
    if t == "defaults":
        return ("defaults", c.get("form"), len(c.get("entries", [])) > 0)
    if t == "call":
        return ("call", c.get("shape"), c.get("prov"), c.get("opts", {}).get("resolveType"))
    if t:
        kinds = tuple(sorted({d.get("k") for d in c.get("decls", []) if isinstance(d, dict)}))
        return (t, c.get("place"), c.get("opts", {}).get("resolveType"), kinds)
    if "module" in c and "sites" in c:
        # traversal modules (Visitor.tla): one stratum per set of item shapes, so that rare shapes (an arrow without JSX
        # after a captured copy, ...) are always in the sample
        def shapes(items):
            out = set()
            for it in items:
                k = it.get("k")
                if k == "arrow" and it.get("item", {}).get("k") == "plain":
                    k = "arrowplain"
                if k == "assign":
                    k = "assign:" + it.get("rhs", {}).get("k", "") + ":" + str(it.get("rhs", {}).get("kind", ""))
                if k == "site":
                    k = "site:" + str(it.get("kind"))
                out.add(k)
                if "body" in it:
                    out |= shapes(it["body"])
                if "item" in it and isinstance(it["item"], dict):
                    out |= shapes([it["item"]])
            return out
        return ("vmodule", c.get("opts", {}).get("enableObjectSlots"), tuple(sorted(shapes(c["module"]))))
    return (c.get("prop"), c.get("kind"), c.get("lang"))


def sample_stratified(cases, n, seed, per=2):
    """`per` cases of every stratum, the rest of the budget drawn uniformly"""
    if len(cases) <= n:
        return cases
    rnd = random.Random(seed)
    by = {}
    for i, c in enumerate(cases):
        by.setdefault(stratum(c), []).append(i)
    keep = set()
    for k in sorted(by, key=repr):
        idx = by[k]
        keep.update(idx if len(idx) <= per else rnd.sample(idx, per))
    rest = [i for i in range(len(cases)) if i not in keep]
    if len(keep) < n:
        keep.update(rnd.sample(rest, min(len(rest), n - len(keep))))
    return [cases[i] for i in sorted(keep)]


def pool_post(prefix, cap_quick, cap_thorough):
    def post(cases, tier, seed):
        is_grid = lambda c: str(c.get("case", "")).startswith("G-") or "graph" in c
        grid = [c for c in cases if is_grid(c)]
        pool = [c for c in cases if not is_grid(c)]
        pool = sample_stratified(pool, cap_quick if tier == "quick" else cap_thorough, seed)
        out = []
        for i, c in enumerate(grid + pool):
            d = dict(c)
            d["case"] = "%s-%d" % (prefix, i + 1)
            out.append(d)
        return out
    return post


def corpus_cases(tier, seed):
    """real-world JSX-free JavaScript already on this image (the npm CLI bundled with node); used only if present"""
    import glob
    import os
    roots = sorted(glob.glob(os.path.expanduser("~/.nvm/versions/node/*/lib/node_modules/npm")))
    if not roots:
        return []
    files = sorted(glob.glob(os.path.join(roots[-1], "**", "*.js"), recursive=True))
    files = [f for f in files if os.path.getsize(f) < 60000]
    files = sample(files, 250 if tier == "quick" else 2500, seed)
    out = []
    opts = dict(transformOn=False, optimize=True, mergeProps=True, enableObjectSlots=True, resolveType=False, patterns=[], pragma="")
    for i, f in enumerate(files):
        try:
            src = open(f, encoding="utf-8").read()
        except Exception:
            continue
        out.append(dict(case="K-%d" % i, kind="corpus", file=os.path.relpath(f, roots[-1]), opts=opts, lang="jsx", _src=src))
    return out


def c09_post(cases, tier, seed):
    base = pool_post("C09", 5000, 60000)(cases, tier, seed)
    extra = corpus_cases(tier, seed)
    for i, c in enumerate(extra):
        c["case"] = "C09-K%d" % i
    return base + extra


POOL = [dict(module="MC_C01"), dict(module="MC_C03"), dict(module="MC_C04"), dict(module="MC_C05"),
        dict(module="MC_C13", tiers=("thorough",)), dict(module="MC_C02"), dict(module="MC_C06", heap="10g"),
        dict(module="MC_C11", tiers=("thorough",))]


SCOPE_EVENTS = {"enter_stmts", "exit_stmts", "enter_arrow", "exit_arrow", "gen_slot", "iife_take", "capture",
                "assign_enter", "assign_exit", "assign_seen", "drain_module"}


def c06_slim(ob):
    """only what Judge_C06 reads"""
    a, d, rt = ob["abs"], ob["drv"], ob["rt"]
    keep = ("term", "reparse", "free_in", "free_out", "ids_raw", "ids_out", "loose", "gen", "ndiag")
    dd = {k: d[k] for k in keep if k in d}
    dd["hooks"] = [h for h in d.get("hooks", []) if h.get("ev") in SCOPE_EVENTS]
    dd["imports"] = sorted({h["name"] for h in d.get("hooks", []) if h.get("ev") == "import"})
    return dict(case=ob["case"], ran=ob["ran"], why_not_run=ob["why_not_run"],
                abs={k: a[k] for k in ("case", "module", "sites", "predicted", "opts", "imports", "helper") if k in a},
                drv=dd, rt=dict(exports=rt["exports"], errors=rt["errors"], events=[]))


def c06_post(cases, tier, seed):
    out = []
    for i, c in enumerate(cases):
        d = dict(c)
        d["case"] = "C06-%d" % (i + 1)
        out.append(d)
    return out


def c12_post(cases, tier, seed):
    """every pooled module under optimize=true and optimize=false (other options as enumerated)"""
    must = [c for c in cases if c.get("kind") == "optdiff"]          # written for this comparison: all of them
    rest = [c for c in cases if c.get("kind") != "optdiff" and not str(c.get("case", "")).startswith("G-")]
    cases = must + sample_stratified(rest, (6000 if tier == "quick" else 60000) - len(must), seed)
    out = []
    for i, c in enumerate(cases):
        if "case" not in c:
            c = dict(c, case="V%d" % i)
        for flag in (True, False):
            d = dict(c)
            d["opts"] = dict(c["opts"], optimize=flag)
            d["case"] = c["case"].replace("-", "_") + ("#T" if flag else "#F")
            d["prop"] = "C12"
            out.append(d)
    return out


PROPS = {
    "C01": dict(
        mc=[dict(module="MC_C01")], judge="Judge_C01", want=["js"],
        rule="TLC enumerates all attribute sequences (21 attribute atoms: static/multi-line strings, value-less, "
             "bound/unbound identifiers, calls, members, namespaced, static/dynamic class and style, listeners, "
             "spreads of identifier/object literal/call, on/nativeOn objects) up to the length bound on an element and a "
             "component host under mergeProps x transformOn, every tag form under all option combinations, and every "
             "syntactic category of attribute value; non-trivial = has attributes or is a tag-form case",
        exhaustive=dict(quick=True, thorough=True),
        assumptions=["repeated plain attribute names are outside the domain (only class/style/listeners/spreads repeat)",
                     "class strings are compared as token lists, listener lists as sets, a falsy listener equals no listener"],
    ),
    "C03": dict(
        mc=[dict(module="MC_C03")], judge="Judge_C03", want=["js"],
        rule="full product of component host (bound, unbound, member) x 27 child shapes (none; bound/unbound identifier and "
             "call each with 5 runtime value kinds; arrow; function; object literal; text; element; member; literal; mixed; "
             "spread; several) x v-slots form (absent, identifier, object literal) x enableObjectSlots x optimize x "
             "enclosing context; every function slot is invoked twice by the runtime observer",
        exhaustive=dict(quick=True, thorough=True),
        assumptions=["v-slots beside a pass-through child: the pass-through value alone is accepted (DESIGN 6.0)",
                     "v-slots beside a single object-literal child: merged or the child alone are both accepted"],
    ),
    "C04": dict(
        mc=[dict(module="MC_C04")], judge="Judge_C04", want=["js"],
        rule="directive spellings (v-kebab, vCamel, multi-word, v-x:arg, v-show/vShow) x 0..2 _modifier suffixes x value "
             "shapes (expr, call, string literal, absent, [v], [v,arg], [v,'lit'], [v,[mods]], [v,[]], [v,arg,[mods]]) x element/"
             "component host x co-occurring attribute/ref/class/v-html/v-text; thorough adds ordered pairs of directives",
        exhaustive=dict(quick=True, thorough=True),
        assumptions=["a directive with no value: any value accepted, the binding (name, arg, modifiers) is still checked",
                     "argument `undefined` equals no argument; `_mod` suffixes together with an array modifier list are not generated"],
    ),
    "C05": dict(
        mc=[dict(module="MC_C05")], judge="Judge_C05", want=["js"],
        rule="hosts (input with no/checkbox/radio/other static type, dynamic type; select; textarea; div; bound and unbound "
             "component) x targets (bound identifier, member, index, unbound identifier) x argument forms (none, :arg, string second "
             "element, computed second element) x modifier forms (none, _suffix, array list, empty list) x mergeProps x optimize; "
             "v-model beside other attributes/spreads/directives; v-models lists up to the bound with distinct targets. Every "
             "onUpdate:* listener is fired with a sentinel and all targets are read back",
        exhaustive=dict(quick=True, thorough=True),
        assumptions=["v-model:arg on a form element: listener key onUpdate:modelValue or onUpdate:<arg> accepted",
                     "v-model on a non-form element: any model directive accepted"],
    ),
    "C11": dict(
        mc=[dict(module="MC_C11")], judge="Judge_C11", want=["js"],
        rule="elements of up to MaxAttrs attributes/spreads/directives and MaxKids children whose every leaf is observable "
             "(calls, member reads, logging getters) with position-derived unique probe ids, nested element and nested "
             "component children, across element/bound component/unbound component/fragment hosts and option combinations; "
             "every slot is invoked twice; the judge is a monitor state machine over the recorded runtime event trace; "
             "non-trivial = at least two constrained leaves or a component",
        exhaustive=dict(quick=True, thorough=True),
        assumptions=["trivial leaves (bare identifier, literal) carry no once/order demand",
                     "tag, directive value/argument, v-slots, v-model target/argument: exactly-once only, position unconstrained",
                     "a repeated class/style/listener attribute may run at its own position or at its first occurrence's",
                     "on/nativeOn under transformOn is an attribute value: strict source order"],
    ),
    "C13": dict(
        mc=[dict(module="MC_C13F", heap="10g", actions=["StepAttr"]),
            dict(module="MC_C13S", heap="10g", actions=["Push", "Fill", "Pop"]), dict(module="MC_C13")], judge="Judge_C13", want=["js"],
        rule="TLC model-checks AttrsFold.tla (the transform_attrs fold, one step per attribute) over every enumerated attribute "
             "sequence — AgreesWithOperator, Sound (the model's own flags satisfy the property's clauses), DynNamesDistinct, "
             "NeverNegative, Monotone — and SlotFlags.tla (the slot-flag stack: push / fill / pop) over every nested component tree "
             "under both optimize settings — StackBalancedAtEnd, PushPopMatched, FlagSoundAtPop, NoFlagsWithoutOptimize; every real "
             "run's `attrs_done` resp. enter/fill/exit hook events are validated against the models' predictions. "
             "Inputs: attribute sequences up to the bound over {static string, value-less, constant number/array/object, undefined, "
             "dynamic identifier, call, object with a dynamic member} x {class, style, key, ref, onClick, other listener, plain, id, "
             "namespaced, onUpdate:modelValue} plus {spread, computed-key v-model, plain and :arg v-model, directive, v-show, "
             "v-html, v-text, transformOn `on` object} on div / input / component, exhaustively; plus nested component trees "
             "(bound/unbound identifier, text, call, element, component children) for slot flags; non-trivial = optimize on",
        exhaustive=dict(quick=True, thorough=True),
        assumptions=["key and ref are not props for the 'can differ' clause; ref only matters for the NEED_PATCH clause",
                     "a vnode call without any patch flag is always sound (Vue then diffs all props)"],
    ),
    "C12": dict(
        mc=[dict(module="MC_C01"), dict(module="MC_C03"), dict(module="MC_C04"), dict(module="MC_C05"), dict(module="MC_C13"),
            dict(module="MC_C02"), dict(module="MC_C06", heap="10g"), dict(module="MC_C07")],
        post=c12_post, group_by=lambda cid: cid.split("#")[0],
        judge="Judge_C12", want=["js"],
        rule="the pooled modules enumerated for C01-C05 and C13 (all attribute/children/slot/directive/v-model shapes, "
             "nested component trees), each transformed and executed under optimize=true and optimize=false with the other "
             "options as enumerated; the pool is sampled by VERIF_SEED when larger than the tier's cap; non-trivial = the "
             "optimize=true run carries at least one hint",
        exhaustive=dict(quick=False, thorough=False),
        assumptions=["hints = arguments 4-5 of vnode calls and the `_` entry of slot objects"],
    ),
    "C06": dict(
        mc=[dict(module="MC_C06", heap="10g", actions=["EnterStmts", "ExitStmts", "EnterArrow", "ParamsDone", "ExitArrow", "AssignEnter", "AssignExit",
                                                           "SiteStep", "DrainModule"])], post=c06_post, obs_slim=c06_slim, judge="Judge_C06", want=["js", "scope"],
        rule="TLC model-checks Visitor.tla (the traversal state machine: pending-declaration frames, slot counter, assignment "
             "target, helper/import flags) over ALL module histories up to the bounds, for enableObjectSlots on and off (items: JSX sites needing no temporary / a "
             "call temporary / the captured-identifier path, assignments, functions, default parameters, arrows, nested arrows, "
             "blocks, class fields) with ScopeOK, NoLeak, DeclsUsed, NoDuplicateDecl, HelperIffNeeded, CaptureOnlyOwn, "
             "CaptureWhenOwn as invariants; every terminal state is replayed on the real visitor and judged on free variables, "
             "binding identity through printing, generated-binding use, runtime errors and site values; the real hook trace is "
             "validated against the model's predicted trace and the requested helper imports against the model's import set; non-trivial = the model predicts more than two scope events",
        exhaustive=dict(quick=True, thorough=True),
        assumptions=["initialisation order (TDZ) is observed by executing the output, not derived statically",
                     "a site that is never evaluated (body of an arrow nobody calls) is only checked statically"],
    ),
    "C10": dict(
        mc=[dict(module="MC_C10")], group_by=lambda cid: cid.split("#")[0], judge="Judge_C10", want=["js"],
        rule="ordered (prefix, statement, suffix) triples: 10 statements whose lowering consults visitor state (Fragment tag, "
             "fragment, call-child slot, captured-identifier slot, unbound-identifier slot, nested components, KeepAlive, v-model, "
             "two temporaries, a typed defineComponent call under resolveType) x distractor sequences over {assignment to the same-named variable, JSX-valued assignment, other JSX "
             "needing a temporary, fragment, <Fragment>, function/arrow/block bodies with and without JSX, arrow assigning the "
             "variable, user imports of Fragment/createVNode/h from 'vue'}; each triple is transformed and executed alone and "
             "composed; TLC compares the two recorded values and judges both against the denotation",
        exhaustive=dict(quick=True, thorough=True),
        assumptions=["when prefix/suffix write a binding the statement references, only the denotation (not equality with the "
                     "stand-alone run) is demanded, with the slot content left open",
                     "pragma annotations are module-wide by C15 and are not distractors"],
    ),
    "C07": dict(
        mc=[dict(module="MC_C07")] + POOL, post=pool_post("C07", 6000, 80000), judge="Judge_C07", want=["basic"], node=False,
        rule="the grid of legal-but-unusual forms of spec/mc/MC_C07.tla (element/fragment as attribute value, namespaced and "
             "member tags, this-member tags, value-less directives, array-form directives with holes/spreads/empty arrays, "
             "non-identifier modifier strings, pragma comments with trailing words / other @jsx* tags / no name, ...) under "
             "every option set, plus a VERIF_SEED sample of the pooled modules of every other check; non-trivial = parsed and "
             "contains JSX",
        exhaustive=dict(quick=False, thorough=False),
        assumptions=["'no JSX of any kind' is decided on the AST the next pass receives (Expr::JSXMember etc. count), "
                     "re-parsing on the printed text with JSX disabled"],
    ),
    "C08": dict(
        mc=[dict(module="MC_C08T", heap="10g", actions=["Return", "Call", "Finish"]), dict(module="MC_C07"), dict(module="MC_C17"), dict(module="MC_C16"), dict(module="MC_C18"), dict(module="MC_C20", tiers=("thorough",))] + POOL, post=pool_post("C08", 4000, 60000), judge="Judge_C08", want=["det"], node=False, case_timeout=8.0,
        proofs=["TypeResolveProofs"],
        technique="explicit TLA+ spec; TLC model checking (incl. liveness of TypeResolve.tla) + spec->impl replay + impl->spec trace "
                  "validation; the depth guard of TypeResolve.tla additionally proved unbounded with the TLA+ proof system (tlapm)",
        rule="TLC model-checks TypeResolve.tla (the type-resolution stack machine with its depth bound) over every declaration graph "
             "on three names (2 197 graphs: literal / alias / intersection bodies) — liveness `Termination`, safety `ReportsCycles`, "
             "`DepthBounded`, `NoOverflow` — and every graph is replayed on the real resolveType (cycle reported iff reachable; the "
             "real lookups are compared with the model's); the depth guard itself (`Len(stack) <= MaxDepth + 1` in every reachable "
             "state, hence no overflow when MaxDepth + 1 <= StackLimit) is proved for EVERY name set, graph and MaxDepth by the TLA+ "
             "proof system (spec/proofs/TypeResolveProofs.tla, re-checked from scratch on every run). Plus adversarial modules (every directive name x every JSX attribute-value kind on element and component, deep nesting, "
             "self- and mutually-referential aliases and interfaces through alias / extends / intersection / utility / indexed "
             "access / emits, empty runtime types, odd defineComponent call shapes, the unusual-forms grid and the type-expression "
             "pools of C16-C18) under the option sets, plus a sample of the pooled modules; each is run twice in one "
             "process and once more in a fresh process; panics are caught, aborts and timeouts of the driver process are data",
        exhaustive=dict(quick=False, thorough=False),
        assumptions=["'does not loop' is observed as 'returns within 20 s' (median < 1 ms)",
                     "8 MB stack for the transform thread; deep nesting is bounded by the cfg (Depths)"],
    ),
    "C09": dict(
        mc=[dict(module="MC_C07"), dict(module="MC_C20"), dict(module="MC_C16"), dict(module="MC_C18")] + POOL, post=c09_post, judge="Judge_C09", want=["frame", "idem"], node=False,
        rule="pooled generated modules (JSX embedded in assignments, functions, arrows, classes, blocks, default parameters; "
             "the unusual-forms grid) — for each: ordered embedding of the fingerprints of every maximal JSX-free input "
             "statement/expression into the fingerprints of the output, unchanged-ness of JSX-free modules against the same "
             "pipeline without the visitor, and a second pass over the printed output; plus a VERIF_SEED sample of the real-world "
             "JSX-free JavaScript on the image (the npm CLI's own sources), which must come back unchanged with nothing added",
        exhaustive=dict(quick=False, thorough=False),
        assumptions=["fingerprints are span-insensitive prints of the raw visitor output (before hygiene)"],
    ),
    "C15": dict(
        mc=[dict(module="MC_C15")], judge="Judge_C15", want=["js", "scope"],
        rule="comment placement (file head, before the second top-level statement, before a later one, inside a function, "
             "trailing, inside an expression) x style (block, line, JSDoc, multi-line JSDoc) x annotation text (@jsx name, "
             "extra spaces, name followed by words, no name, @jsxImportSource, @jsxRuntime, @jsxFrag, unrelated, wrong case, "
             "@jsx not at the start) x pragma option present/absent, on a module with an element, a fragment and a component "
             "in a function; every vnode's factory is observed at runtime; non-trivial = an annotation or the option names a factory",
        exhaustive=dict(quick=True, thorough=True),
        assumptions=["`@jsx name more words` and `@jsx` not at the start of the comment: named factory or default accepted",
                     "two different @jsx annotations in one file are outside the domain"],
    ),
    "C14": dict(
        mc=[dict(module="MC_C14")], group_by=lambda cid: cid.split("#")[0], judge="Judge_C14", want=["det", "scope"], node=False,
        rule="14 modules classified by the features they use (none; on; nativeOn; spread; repeated attribute; single identifier "
             "child; single call child; two children; tag matching a pattern; other hyphenated tag; no JSX; Vue defineComponent; "
             "local defineComponent; everything) x configurations (quick: default +- up to two options; thorough: all 2^5 x "
             "pattern list x pragma) x JSON spellings (all keys explicit; only non-default keys, {} for the default; unknown extra "
             "keys; invalid pattern); outputs are compared byte-for-byte by hash within each module",
        exhaustive=dict(quick=False, thorough=True),
        assumptions=["optimize and pragma concern every JSX element and are never 'irrelevant'",
                     "the option JSON reaches the visitor through serde_json::from_str::<Options> like in plugin/src/lib.rs"],
    ),
    "C16": dict(
        mc=[dict(module="MC_C16")], judge="Judge_C16", want=["js"],
        rule="5 prop maps (identifier / quoted-hyphenated keys, properties, methods, getters, optional flags, empty) x encodings "
             "(inline literal, alias, alias chain, interface, every split into merged declarations / extends / intersection, "
             "parentheses, indexed access through a literal and an interface, Partial, Required, Pick, Omit with literal / union / "
             "aliased keys; thorough: each wrapped once more) x placement (before / after the call, exported, local scope, local "
             "scope shadowing a same-named outer declaration); plus unresolvable types (imported, Readonly, primitive, array); "
             "the mock defineComponent records the options Vue receives; non-trivial = declarations or an unresolvable type",
        exhaustive=dict(quick=True, thorough=True),
        assumptions=["one key with conflicting optionality across merged/intersected parts: either `required` value accepted",
                     "a union as the props type is outside the domain"],
    ),
    "C17": dict(
        mc=[dict(module="MC_C17")], judge="Judge_C17", want=["js"],
        rule="33 atom types (keywords, literal types incl. template and bigint, function/constructor, array, tuple, object / "
             "call-signature / mixed / empty type literals, built-in classes) and 3 interfaces, closed under alias, parentheses, "
             "tuple/array/property/interface indexing, NonNullable, Partial, Readonly, Record, Uppercase, Parameters and unions "
             "with string/boolean/null/any/number on either side (thorough: two levels), each as a required and as an optional "
             "prop; the observed `type` option is compared with Types!Ctors",
        exhaustive=dict(quick=True, thorough=True),
        assumptions=["undefined/void/never are not in the atom table (the property does not list them)",
                     "a prop option without any `type` never rejects and is accepted"],
    ),
    "C19": dict(
        mc=[dict(module="MC_C19")], judge="Judge_C19", want=["js"],
        rule="4 event-name sets (incl. names with ':' and '-') x encodings (function type, parenthesised, union of function types, "
             "call-signature literal with one or several signatures, property syntax, alias of each, interface with call signatures / "
             "properties, literal-union alias and alias chain as the parameter type; every split into extends / intersection / union "
             "/ union-with-alias / merged interface declarations) x placement; plus the unannotated case",
        exhaustive=dict(quick=True, thorough=True),
        assumptions=[],
    ),
    "C18": dict(
        mc=[dict(module="MC_C18")], judge="Judge_C18", want=["js"],
        rule="prop map {a?: string, b?: number, cb?: () => void, 'q-k'?: string, z?: boolean, u?: fn|string, 'w'?: number, ['v']?: string} x default object literals: per key "
             "none / literal / expression / shorthand / getter / method / async method / function value / quoted and "
             "computed-literal key spellings, with and without an extra key (full product), plus the dynamic forms identifier, "
             "call, spread and computed key; the runtime observer resolves every default with Vue's rule (function defaults are "
             "called as factories unless the prop type is Function) and calls Function-typed defaults once",
        exhaustive=dict(quick=True, thorough=True),
        assumptions=["async methods: only that the default is a function is checked"],
    ),
    "C20": dict(
        mc=[dict(module="MC_C20")], judge="Judge_C20", want=["js"],
        rule="19 call shapes (no options; {}; literal with props / emits / name, each also with a quoted key; all three; another "
             "option; literals containing a spread before / after / alone; spread of an empty object; identifier and call as "
             "options; spread argument list; object as first argument) x 7 provenances of the callee (vue named import, aliased "
             "vue import, namespace member, local function, parameter shadowing the import, other module, aliased vue import "
             "beside another module's defineComponent) x 7 declaration kinds x resolveType on/off — full product; the mock "
             "defineComponent records what Vue effectively receives; non-trivial = resolveType on",
        exhaustive=dict(quick=True, thorough=True),
        assumptions=["a vue import under another local name: augmented or not are both accepted",
                     "name inference when the first argument is not a function: either accepted"],
    ),
    "C02": dict(
        mc=[dict(module="MC_C02")], judge="Judge_C02", want=["js"],
        rule="TLC enumerates every JSX-text string over the symbol alphabet up to the length bound in every "
             "position, and every child sequence over the child-kind alphabet up to the length bound under every "
             "host; a case is non-trivial when the element has at least one written child",
        exhaustive=dict(quick=True, thorough=True),
        assumptions=["JSX text symbols are those of Text!SymCp; entities are written &amp; &nbsp; &#32; &lt;"],
    ),
}
